#!/bin/sh
# setup: compile the TLC operator override, parse every module, self-test the arithmetic
set -e
cd "$(dirname "$0")"
mkdir -p .cache work evidence replays
javac -cp /opt/veriftools/tla/tla2tools.jar -d tla tla/Real.java
cd tla
for m in *.tla; do
  tla-sany "$m" > ../work/sany.log 2>&1 || { cat ../work/sany.log; echo "SANY failed on $m"; exit 2; }
done
java -XX:+UseSerialGC -Xmx2g -cp /opt/veriftools/tla/tla2tools.jar:/opt/veriftools/tla/CommunityModules-deps.jar tlc2.TLC \
  -metadir ../work/meta-selftest -noGenerateSpecTE Real_selftest.tla > ../work/selftest.log 2>&1 || { tail -30 ../work/selftest.log; exit 2; }
rm -rf ../work/meta-selftest
grep -q '<<"Real_selftest", TRUE, TRUE, TRUE, TRUE, TRUE>>' ../work/selftest.log || { echo "Real selftest failed"; exit 2; }
echo "setup ok"
cd ..
/venv/bin/python harness/pregen.py quick

"""Call one engine primitive of the real library with both engines on one grid point (C15)."""
from __future__ import annotations

import json
import zlib

import os
import sys

REPO = os.environ.get("VERIF_REPO", "/repo")
sys.path.insert(0, os.path.join(REPO, "src"))

import casadi as cs  # noqa: E402
import numpy as np  # noqa: E402

from common import fr, num  # noqa: E402

np.seterr(all="ignore")

SIG = {
    "get_flow": ("links", ["rho", "v", "lanes"]),
    "step_density": ("links", ["rho", "q", "q_up", "lanes", "L", "T"]),
    "Veq": ("links", ["rho", "v_free", "rho_crit", "a"]),
    "step_speed": ("links", ["v", "v_up", "rho", "rho_down", "Veq", "lanes", "L", "tau", "eta", "kappa", "T", "q_ramp", "delta",
                             "lanes_drop", "phi", "rho_crit"]),
    "controlled_Veq": ("links", ["rho", "v_ctrl", "vsl", "alpha", "v_free", "rho_crit", "a"]),
    "step_queue": ("origins", ["w", "d", "q", "T"]),
    "get_mainstream_flow": ("origins", ["d", "w", "v_ctrl", "v_first", "rho_crit", "a", "v_free", "lanes", "T"]),
    "get_ramp_flow": ("origins", ["d", "w", "C", "r", "rho_max", "rho_first", "rho_crit", "T", "type"]),
    "get_simplifiedramp_flow": ("origins", ["qdes", "d", "w", "C", "rho_max", "rho_first", "rho_crit", "T", "type"]),
    "get_congestion_free_downstream_density": ("destinations", ["rho_last", "rho_crit"]),
    "get_congested_downstream_density": ("destinations", ["rho_last", "rho_destination", "rho_crit"]),
    "get_upstream_flow": ("nodes", ["q_lasts", "beta", "betas", "q_orig"]),
    "get_upstream_speed": ("nodes", ["q_lasts", "v_lasts"]),
    "get_downstream_density": ("nodes", ["rho_firsts"]),
}
STATE_ARGS = {"rho", "v", "q", "q_up", "v_up", "rho_down", "Veq", "v_ctrl", "w", "d", "r", "qdes", "rho_first", "v_first",
              "rho_last", "rho_destination", "q_ramp", "x"}
_ENG = {}


def engines():
    if not _ENG:
        from sym_metanet.engines.casadi import Engine as CE
        from sym_metanet.engines.numpy import Engine as NE
        _ENG["np"], _ENG["cs"] = NE(), CE("SX")
    return _ENG


def conv(name, val, shape, eng, ints=False, zero_d=False):
    """abstract argument -> what the element layer would pass to this engine; with `ints`, whole numbers are written
    the way users write them: integer arrays / Python ints (NumPy engine only: CasADi's DM is always double)"""
    if name == "type":
        return val
    if isinstance(val, str) and val == "none":
        return None
    whole = lambda z: float(z).is_integer() and abs(z) < 1e6  # noqa: E731
    if isinstance(val, list):
        arr = [num(z) for z in val]
        if eng == "np" and len(arr) == 1 and name in ("q_lasts", "v_lasts", "rho_firsts") and zero_d:
            # a node with ONE entering / leaving link: the element layer hands over that link's value as a scalar; a
            # caller of the primitive may hold it as a NumPy scalar or as a 0-d array (mutable)
            return np.array(arr[0], float) if ints else np.float64(arr[0])
        if eng == "np":
            return np.array([int(z) for z in arr], np.int64) if ints and arr and all(map(whole, arr)) else np.array(arr, float)
        return cs.DM(arr)
    x = num(val)
    if name in STATE_ARGS:
        if eng == "np":
            if ints and whole(x):
                return np.int64(x) if shape == "scalar" else np.array([int(x)], np.int64)
            if shape == "scalar":    # a NumPy scalar (immutable) or a 0-d array (mutable: the callee must not write into it)
                return np.array(x, float) if zero_d else np.float64(x)
            return np.array([x], float)
        return cs.DM(x)
    return int(x) if ints and eng == "np" and whole(x) else x   # a parameter: a plain Python number


def flat(v):
    return [fr(z) for z in np.asarray(v if not isinstance(v, cs.DM) else v.full(), float).reshape(-1)]


def call(case, eng):
    e = engines()[eng]
    prim, a, shape = case["prim"], case["args"], case["shape"]
    ints = zlib.crc32(json.dumps([prim, a, shape], sort_keys=True).encode()) % 3 == 0
    try:
        if prim == "max":
            return {"ok": True, "err": "", "out": flat(e.max(0, conv("x", a["x"], shape, eng, ints)))}
        if prim == "vcat":
            return {"ok": True, "err": "", "out": flat(e.vcat(conv("a", a["a"], shape, eng, ints), conv("b", a["b"], shape, eng, ints)))}
        grp, names = SIG[prim]
        args = []
        vsl = None
        if prim == "controlled_Veq":
            n_ = len(a["rho"])
            vsl = {"all": list(range(n_)), "first": [0], "last": [n_ - 1], "outer": sorted({0, n_ - 1})}.get(
                a["pat"], [i for i in range(n_) if i >= n_ - 2])
        zero_d = zlib.crc32(json.dumps([shape, a, prim], sort_keys=True).encode()) % 2 == 0
        for n in names:
            if n == "vsl":
                args.append(vsl)
            elif n == "v_ctrl" and vsl is not None:
                args.append(conv(n, [a[n][i] for i in vsl], shape, eng, ints))
            else:
                args.append(conv(n, a[n], shape, eng, ints, zero_d))
        f = getattr(getattr(e, grp), prim)
        out = flat(f(*args))
        if eng == "np":
            # the same argument OBJECTS once more (a caller who keeps its arrays): the value must be the same; if it is
            # not, the second answer is the one reported and the comparison with the laws decides
            out2 = flat(f(*args))
            if out2 != out:
                out = out2
        return {"ok": True, "err": "", "out": out}
    except BaseException as ex:  # noqa: BLE001
        return {"ok": False, "err": f"{type(ex).__name__}: {str(ex)[:120]}", "out": []}


def run_chunk(cases):
    out = []
    for c in cases:
        r = dict(c)
        r["obs"] = {"np": call(c, "np"), "cs": call(c, "cs")}
        out.append(r)
    return out

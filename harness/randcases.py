"""Random valid networks with realistic floating-point parameters and states
(direction B: executions recorded from the real code, validated by TLC).
Only the standard library; generation is seeded and independent of the repository."""
from __future__ import annotations

import random

from common import fr

OK = ["ideal", "mainstream", "ramp_in", "ramp_out", "simp_limited", "simp_unlimited"]
RAMPS = OK[2:]
NOOPTS = {"pis": False, "pid": False, "piq": False, "pns": False, "pnd": False, "pnq": False}


def rand_shape(rng: random.Random, nmax=5, mmax=6):
    while True:
        n = rng.randint(2, nmax)
        m = rng.randint(1, mmax)
        pairs = [(a, b) for a in range(n) for b in range(n)]
        E = rng.sample(pairs, min(m, len(pairs)))
        if {z for e in E for z in e} != set(range(n)):
            continue
        indeg = [sum(1 for e in E if e[1] == a) for a in range(n)]
        outdeg = [sum(1 for e in E if e[0] == a) for a in range(n)]
        orig, dest, ok = {}, {}, True
        for a in range(n):
            if outdeg[a] == 0:
                if indeg[a] != 1:
                    ok = False
                    break
                dest[a] = rng.choice(["free", "congested"])
            if indeg[a] == 0:
                if outdeg[a] != 1:
                    ok = False
                    break
                orig[a] = rng.choice(OK)
            elif outdeg[a] == 1 and a not in dest and rng.random() < 0.4:
                orig[a] = rng.choice(RAMPS)
        if ok:
            return n, E, orig, dest


def rand_case(rng: random.Random, cid: str, want: dict, opts=None, corner=0.15, nmax=5, mmax=6) -> dict:
    n, E, orig, dest = rand_shape(rng, nmax, mmax)
    links, x_rho, x_v, vctrl = {}, {}, {}, {}
    order = list(range(len(E)))
    rng.shuffle(order)
    for k in order:
        a, b = E[k]
        N = rng.randint(1, 4)
        rho_crit = rng.uniform(25, 40)
        rho_max = rng.uniform(150, 200)
        ctl = rng.random() < 0.4
        vsl = sorted(set(rng.randrange(N) + 1 for _ in range(rng.randint(0, N)))) if ctl else []
        name = f"L{k}"
        links[name] = {"up": f"N{a}", "down": f"N{b}", "N": N, "lam": fr(rng.randint(1, 4)), "L": fr(rng.uniform(0.5, 1.5)),
                       "rho_max": fr(rho_max), "rho_crit": fr(rho_crit), "v_free": fr(rng.uniform(90, 120)),
                       "a": fr(rng.uniform(1.2, 2.2)), "beta": fr(rng.uniform(0.3, 3)), "ctl": ctl, "vsl": vsl,
                       "alpha": fr(rng.uniform(0, 0.2) if ctl else 0.0)}

        def dens():
            r = rng.random()
            if r < corner / 3:
                return 0.0
            if r < 2 * corner / 3:
                return rho_crit
            return rng.uniform(2, 120)

        def speed():
            return 0.0 if rng.random() < corner / 2 else rng.uniform(1, 118)

        x_rho[name] = [fr(dens()) for _ in range(N)]
        x_v[name] = [fr(speed()) for _ in range(N)]
        if ctl:
            vctrl[name] = [fr(rng.uniform(20, 120)) for _ in vsl]
    origins, w, uo, do = {}, {}, {}, {}
    for a, kind in orig.items():
        o = f"O{a}"
        origins[o] = {"node": f"N{a}", "kind": kind, "C": fr(rng.uniform(800, 2500))}
        if kind == "ideal":
            continue
        w[o] = fr(0.0 if rng.random() < corner else rng.uniform(0, 80))
        do[o] = fr(rng.uniform(100, 3000))
        uo[o] = fr({"mainstream": rng.uniform(3, 130), "ramp_in": rng.choice([0.0, 1.0, rng.random(), rng.random()]),
                    "ramp_out": rng.choice([0.0, 1.0, rng.random(), rng.random()]),
                    "simp_limited": rng.uniform(50, 2500), "simp_unlimited": rng.uniform(50, 2500)}[kind])
    dests, dd = {}, {}
    for a, kind in dest.items():
        k = f"D{a}"
        dests[k] = {"node": f"N{a}", "kind": kind}
        if kind == "congested":
            dd[k] = fr(rng.uniform(5, 80))
    hasDelta, hasPhi = rng.random() < 0.6, rng.random() < 0.6
    par = {"T": fr(10 / 3600), "tau": fr(18 / 3600), "eta": fr(60.0), "kappa": fr(40.0),
           "delta": fr(rng.uniform(0.005, 0.03)), "phi": fr(rng.uniform(0.5, 3)), "hasDelta": hasDelta, "hasPhi": hasPhi}
    # random construction order through the public API
    script = [["link", k["up"], l, k["down"]] for l, k in links.items()]
    script += [["origin", o, k["node"]] for o, k in origins.items()]
    script += [["dest", d, k["node"]] for d, k in dests.items()]
    rng.shuffle(script)
    return {"id": cid, "src": "random", "net": {"links": links, "origins": origins, "dests": dests}, "build": script,
            "par": par, "opts": dict(opts or NOOPTS), "x": {"rho": x_rho, "v": x_v, "w": w},
            "u": {"vctrl": vctrl, "o": uo}, "d": {"o": do, "dest": dd}, "want": want}

"""Drive the construction API of the real library along abstract call histories and
project the real objects back to the abstract state of NetBuild.tla.
The projection reads only public API (net.graph, the lookup properties, is_valid)."""
from __future__ import annotations

import json
import zlib

import os
import sys

REPO = os.environ.get("VERIF_REPO", "/repo")
sys.path.insert(0, os.path.join(REPO, "src"))

LOOKUPS = ["nodes_by_name", "links_by_name", "nodes_by_link", "origins", "origins_by_name", "origins_by_node",
           "destinations", "destinations_by_name", "destinations_by_node"]


def name_of(i: str) -> str:
    """the naming function of MC_Build (duplicates on purpose)"""
    if i[0] == "n":
        return {"n1": "A", "n2": "B", "n3": "A", "n4": "C"}.get(i, "N" + i[1:])
    if i[0] == "l":
        return "M" if i == "l3" else ("L" if i in ("l1", "l2") else "L" + i[1:])
    if i[0] == "o":
        return "O" if i == "o1" else "O" + i[1:]
    if i[0] == "r":
        return "R"
    if i[0] == "d":
        return "D" if i in ("d1", "d2") else "D" + i[1:]
    return i


POOL: dict = {}   # objects shared by the networks of one worker process (a Node may belong to several networks)


class Universe:
    """fresh objects for one replay; ids: n* nodes, l* links, o* plain origins, r* metered ramps, d* destinations"""

    def __init__(self, shared: bool = False):
        import sym_metanet as sm
        self.sm = sm
        self.obj, self.ido = {}, {}
        self.shared = shared     # nodes and elements are the SAME objects in every network of this process
        self.net = sm.Network(name="replay")

    def get(self, i: str):
        if i == "None":      # Python's None where a node is expected (networkx refuses it)
            return None
        if self.shared and i not in self.obj and i in POOL:
            self.obj[i] = POOL[i]
            self.ido[id(POOL[i])] = i
        if i not in self.obj:
            sm = self.sm
            k = i[0]
            nm = name_of(i)
            num_ = int(i[1:]) if i[1:].isdigit() else 1
            if k == "n":
                o = sm.Node(name=nm)
            elif k == "l":
                o = sm.Link(2, 3, 1.0, 180.0, 33.5, 102.0, 1.867, name=nm)
            elif k == "o":   # origins that are NOT ramps: ideal (odd) / mainstream (even)
                o = sm.Origin(name=nm) if num_ % 2 else sm.MainstreamOrigin(name=nm)
            elif k == "r":   # metered on-ramps: plain (odd) / simplified (even)
                o = sm.MeteredOnRamp(2000.0, name=nm) if num_ % 2 else sm.SimplifiedMeteredOnRamp(2000.0, name=nm)
            elif k == "d":
                o = sm.Destination(name=nm) if num_ % 2 else sm.CongestedDestination(name=nm)
            else:
                raise ValueError(f"unknown id {i}")
            self.obj[i] = o
            self.ido[id(o)] = i
            if self.shared:
                POOL[i] = o
        return self.obj[i]

    def idof(self, o) -> str:
        return self.ido.get(id(o), f"?{type(o).__name__}:{getattr(o, 'name', o)!r}")

    # ------------------------------------------------------------------ calls
    OPS = ("add_node", "add_nodes", "add_link", "add_links", "add_origin", "add_destination", "add_path", "read",
           "out_links", "in_links", "is_valid")

    def call(self, c):
        """perform one abstract call; returns ('ok'|'value'|'valid'|'error', payload)"""
        net, g, op = self.net, self.get, c[0]
        if op not in self.OPS:
            raise ValueError(f"unknown abstract call {op}")
        args = None
        # bulk arguments in the spellings a caller may use for "an iterable": list, tuple, one-shot generator, zip
        self.ncalls = getattr(self, "ncalls", 0) + 1
        spell = zlib.crc32(f"{c}|{self.ncalls}".encode()) % 4

        def iterable(items):
            items = list(items)
            if spell == 1:
                return tuple(items)
            if spell == 2:
                return (z for z in items)
            if spell == 3 and items and isinstance(items[0], tuple) and len({len(z) for z in items}) == 1:
                return zip(*[list(col) for col in zip(*items)])
            return items
        if op == "add_nodes":
            args = iterable(g(i) for i in c[1])
        elif op == "add_links":
            args = iterable(tuple(g(z) for z in t_) for t_ in c[1])   # (a tuple of another length is a malformed description)
        elif op == "add_path":
            args = (iterable(g(i) for i in c[1]), g(c[2]) if c[2] else None, g(c[3]) if c[3] else None)
        elif op in ("add_node", "out_links", "in_links"):
            args = g(c[1])
        elif op in ("add_link",):
            args = (g(c[1]), g(c[2]), g(c[3]))
        elif op in ("add_origin", "add_destination"):
            args = (g(c[1]), g(c[2]))
        try:
            if op == "add_node":
                net.add_node(args)
            elif op == "add_nodes":
                net.add_nodes(args)
            elif op == "add_link":
                net.add_link(*args)
            elif op == "add_links":
                net.add_links(args)
            elif op == "add_origin":
                net.add_origin(*args)
            elif op == "add_destination":
                net.add_destination(*args)
            elif op == "add_path":
                net.add_path(args[0], origin=args[1], destination=args[2])
            elif op == "read":
                return ("value", self.proj_lookup(c[1], getattr(net, c[1])))
            elif op == "out_links":
                return ("value", [[self.idof(u), self.idof(v), self.idof(l)] for u, v, l in net.out_links(args)])
            elif op == "in_links":
                return ("value", [[self.idof(u), self.idof(v), self.idof(l)] for u, v, l in net.in_links(args)])
            elif op == "is_valid":
                return ("valid", self.ask_valid())
            return ("ok", None)
        except BaseException as e:  # noqa: BLE001
            return ("error", type(e).__name__)

    # ------------------------------------------------------------------ projection
    def proj_lookup(self, k, d):
        i = self.idof
        if k == "nodes_by_link":
            return [[i(a), [i(b[0]), i(b[1])]] for a, b in d.items()]
        if k in ("nodes_by_name", "links_by_name", "origins_by_name", "destinations_by_name"):
            return [[a, i(b)] for a, b in d.items()]
        return [[i(a), i(b)] for a, b in d.items()]

    def graph(self):
        """ground truth from the live networkx graph (public: net.graph)"""
        G, i = self.net.graph, self.idof
        nodes = [i(n) for n in G.nodes]
        links = [[i(u), i(v), i(G.edges[u, v].get("link"))] for u in G.nodes for v in G.successors(u)]
        preds = [[i(u), i(v)] for v in G.nodes for u in G.predecessors(v)]
        orig = [[i(n), i(dta["origin"])] for n, dta in G.nodes.data() if "origin" in dta]
        dest = [[i(n), i(dta["destination"])] for n, dta in G.nodes.data() if "destination" in dta]
        non_nodes = [i(n) for n in G.nodes if not isinstance(n, self.sm.Node)]
        return {"nodes": nodes, "links": links, "preds": preds, "orig": orig, "dest": dest, "non_nodes": non_nodes}

    def recompute(self):
        """every lookup recomputed from the live graph by the documented comprehension (independent of any cache)"""
        G, i = self.net.graph, self.idof
        it = [(u, v, G.edges[u, v]["link"]) for u in G.nodes for v in G.successors(u)]
        origins, dests = {}, {}
        for n, dta in G.nodes.data():
            if "origin" in dta:
                origins[dta["origin"]] = n
            if "destination" in dta:
                dests[dta["destination"]] = n
        r = {
            "nodes_by_name": {n.name: n for n in G.nodes},
            "links_by_name": {l.name: l for _, _, l in it},
            "nodes_by_link": {l: (u, v) for u, v, l in it},
            "origins": origins, "origins_by_name": {o.name: o for o in origins},
            "origins_by_node": dict(zip(origins.values(), origins.keys())),
            "destinations": dests, "destinations_by_name": {d.name: d for d in dests},
            "destinations_by_node": dict(zip(dests.values(), dests.keys())),
        }
        return {k: self.proj_lookup(k, v) for k, v in r.items()}

    def read_all(self):
        out = {}
        for k in LOOKUPS:
            try:
                out[k] = self.proj_lookup(k, getattr(self.net, k))
            except BaseException as e:  # noqa: BLE001
                out[k] = ["error", type(e).__name__]
        return out

    def views(self):
        """per-node entering / leaving links through the public views, and edge indexing"""
        G, i, net = self.net.graph, self.idof, self.net
        res = {"in": {}, "out": {}, "at": {}, "err": ""}
        try:
            for n in list(G.nodes):
                res["in"][i(n)] = sorted([i(u), i(v), i(l)] for u, v, l in net.in_links(n))
                res["out"][i(n)] = sorted([i(u), i(v), i(l)] for u, v, l in net.out_links(n))
            for u, v in G.edges:
                res["at"][f"{i(u)},{i(v)}"] = [i(net.links[u, v]), i(net.in_links[u, v])]
            res["links_iter"] = [[i(u), i(v), i(l)] for u, v, l in net.links]
        except BaseException as e:  # noqa: BLE001
            res["err"] = type(e).__name__ + ": " + str(e)[:100]
        return res

    def cached(self):
        return sorted(k for k in LOOKUPS if k in self.net.__dict__)

    def ask_valid(self):
        """is_valid(raises=False) asked the way a caller does who consumes the messages: the returned list is the
        caller's (it is emptied, a note is appended); asked again, the verdict and the messages must be the same"""
        ok, msgs = self.net.is_valid(raises=False)
        first = (bool(ok), list(msgs))
        try:
            msgs.clear()
            msgs.append("(consumed by the caller)")
        except AttributeError:
            pass    # an immutable sequence
        ok2, msgs2 = self.net.is_valid(raises=False)
        if (bool(ok2), list(msgs2)) != first:
            # the second answer is the one reported: the comparison with the specification then decides
            return [bool(ok2), len(msgs2)]
        return [first[0], len(first[1])]

    def validity(self):
        from sym_metanet.errors import InvalidNetworkError
        r = {"ok": None, "nmsgs": None, "raised": None, "err": ""}
        try:
            r["ok"], r["nmsgs"] = self.ask_valid()
        except BaseException as e:  # noqa: BLE001
            r["err"] = "is_valid(False): " + type(e).__name__
        try:
            self.net.is_valid(raises=True)
            r["raised"] = "none"
        except InvalidNetworkError:
            r["raised"] = "InvalidNetworkError"
        except BaseException as e:  # noqa: BLE001
            r["raised"] = type(e).__name__
        return r


def as_set(pairs):
    return sorted(map(lambda p: tuple(map(lambda z: tuple(z) if isinstance(z, list) else z, p)), pairs))


def same_dict(a, b) -> bool:
    """equality as dictionaries (insertion order is not part of the verdict)"""
    return as_set(a) == as_set(b)


def replay_transition(t: dict, read_each: bool = False, ask_each: bool = False) -> dict:
    """replay one TLC transition (history h, last call's expected result and post-state); returns findings"""
    U = Universe(shared=zlib.crc32(json.dumps(t["h"]).encode()) % 2 == 1)
    out = {"c08": [], "c09": [], "c06": [], "drift": []}
    last = None
    failed_before = False
    for c in t["h"]:
        if last is not None and last[0] == "error":
            failed_before = True   # partial effects of a failing call are not part of any verdict
        last = U.call(c)
        if ask_each and c is not t["h"][-1]:
            # the caller asks whether the network is valid after every call (whatever validation memoises is then in place)
            try:
                U.net.is_valid(raises=False)
            except BaseException:  # noqa: BLE001
                pass
        if read_each:   # the history with every lookup read after every call
            allr_, rec_ = U.read_all(), U.recompute()
            for k_ in LOOKUPS:
                if not same_dict(allr_[k_], rec_[k_]):
                    out["c08"].append(["lookup differs from recomputation (all lookups read after every call)", k_, allr_[k_], rec_[k_]])
                    return out
    c = t["h"][-1]
    g = U.graph()
    rec = U.recompute()
    exp_res = t["res"]
    # ---- C09: the call's outcome and the graph
    graph_ok = (sorted(g["nodes"]) == sorted(t["nodes"]) and as_set(g["links"]) == as_set(t["links"])
                and as_set(g["orig"]) == as_set(t["orig"]) and as_set(g["dest"]) == as_set(t["dest"]))
    # after a call that failed, the model's graph is a guess at the library's partial effects; where the guess is wrong
    # (another, equally legitimate, partial effect), what a LATER call does is not judged against the model
    guess_wrong = failed_before and not graph_ok
    if exp_res[0] == "error":
        if last[0] != "error":
            out["c09"].append(["malformed call accepted", c])
    elif last[0] == "error":
        if guess_wrong:
            out["drift"].append(["call raised after a failing call whose partial effects differ from the model's", c, str(last[1])])
        else:
            out["c09"].append(["call raised " + str(last[1]), c])
    if g["non_nodes"]:
        out["c09"].append(["non-node object is a graph node", g["non_nodes"]])
    if not graph_ok:
        what = {"nodes": [g["nodes"], t["nodes"]], "links": [g["links"], t["links"]], "orig": [g["orig"], t["orig"]],
                "dest": [g["dest"], t["dest"]]}
        if exp_res[0] == "error" or last[0] == "error" or failed_before:
            out["drift"].append(["graph after a failing call differs from the model's partial effects", what])
        else:
            out["c09"].append(["graph differs from the described graph", what])
    elif g["nodes"] != t["nodes"] or g["links"] != t["links"] or g["preds"] != t["preds"]:
        out["drift"].append(["iteration order differs from the model", [g["nodes"], t["nodes"], g["links"], t["links"]]])
    # ---- C08: the read just performed, then every lookup and view at this state
    if c[0] == "read" and last[0] == "value":
        if not same_dict(last[1], rec[c[1]]):
            out["c08"].append(["read returned a value that differs from recomputation", c[1], last[1], rec[c[1]]])
        # (with equal names a by-name lookup depends on the insertion ORDER; after a failing call the model's order is a guess)
        if graph_ok and not failed_before and not same_dict(last[1], exp_res[1]):
            out["c08"].append(["read returned a value that differs from the specification", c[1], last[1], exp_res[1]])
    if c[0] in ("in_links", "out_links"):
        if (last[0] != "value" and not guess_wrong) or (last[0] == "value" and graph_ok and sorted(map(tuple, last[1])) != sorted(map(tuple, exp_res[1]))):
            out["c08"].append(["per-node view differs from the specification", c, last, exp_res])
    cached_before = U.cached()
    if graph_ok and not read_each and not ask_each and sorted(cached_before) != sorted(t["cached"]):   # (reads after every call memoise everything)
        out["drift"].append(["memoised set differs from the model", cached_before, t["cached"]])
    allr = U.read_all()
    for k in LOOKUPS:
        if not (isinstance(allr[k], list) and (not allr[k] or allr[k][0] != "error")) or not same_dict(allr[k], rec[k]):
            out["c08"].append(["lookup differs from recomputation", k, allr[k], rec[k]])
        elif graph_ok and not failed_before and not same_dict(allr[k], t["lookups"][k]):
            out["c08"].append(["lookup differs from the specification", k, allr[k], t["lookups"][k]])
    vw = U.views()
    if vw["err"]:
        out["c08"].append(["view access raised", vw["err"]])
    else:
        for n in g["nodes"]:
            ein = sorted([u, v, l] for u, v, l in g["links"] if v == n)
            eout = sorted([u, v, l] for u, v, l in g["links"] if u == n)
            if vw["in"].get(n) != ein or vw["out"].get(n) != eout:
                out["c08"].append(["per-node links differ from the graph", n, vw["in"].get(n), ein, vw["out"].get(n), eout])
        for u, v, l in g["links"]:
            if vw["at"].get(f"{u},{v}") != [l, l]:
                out["c08"].append(["links[u,v] differs from the graph", u, v, vw["at"].get(f"{u},{v}"), l])
        if as_set(vw["links_iter"]) != as_set(g["links"]):
            out["c08"].append(["iteration of net.links differs from the graph", vw["links_iter"], g["links"]])
    # ---- C06
    if c[0] == "is_valid" and graph_ok and last[0] == "valid" and last[1][0] != exp_res[1]:
        out["c06"].append(["is_valid verdict differs", last, exp_res])
    if not g["non_nodes"]:
        v = U.validity()
        if v["err"]:
            out["c06"].append(["is_valid raised", v["err"]])
        else:
            if graph_ok and v["ok"] != t["valid"]:
                out["c06"].append(["validity differs from the nine conditions", v, t["valid"], t["violated"]])
            if v["ok"] and v["nmsgs"] != 0 or (not v["ok"] and v["nmsgs"] < 1):
                out["c06"].append(["verdict and messages disagree", v])
            if (v["raised"] == "InvalidNetworkError") != (not v["ok"]) or v["raised"] not in ("none", "InvalidNetworkError"):
                out["c06"].append(["raises=True disagrees with raises=False", v])
    return out

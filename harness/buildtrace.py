"""Direction B for the construction layer: seeded random histories over a larger universe are
executed by the real library, recorded call by call, and validated by TLC (Trace_Build.tla)."""
from __future__ import annotations

import json
import multiprocessing as mp
import os
import random
import shutil
import time
from concurrent.futures import ThreadPoolExecutor

import common
from common import MachineryError, NCPU, WORK, printed, run_tlc, tlc_error_excerpt

NODES = [f"n{i}" for i in range(1, 7)]
LINKS = [f"l{i}" for i in range(1, 6)]
ORIGS = ["o1", "o2", "r1", "r2"]
DESTS = ["d1", "d2", "d3"]
LOOKUPS = ["nodes_by_name", "links_by_name", "nodes_by_link", "origins", "origins_by_name", "origins_by_node",
           "destinations", "destinations_by_name", "destinations_by_node"]


def rand_history(rng: random.Random, n: int):
    calls = []
    used = NODES[: rng.randint(2, 6)]
    for _ in range(n):
        r = rng.random()
        if r < 0.07:
            calls.append(["add_node", rng.choice(used)])
        elif r < 0.10:
            calls.append(["add_nodes", [rng.choice(used) for _ in range(rng.randint(0, 3))]])
        elif r < 0.30:
            calls.append(["add_link", rng.choice(used), rng.choice(LINKS), rng.choice(used)])
        elif r < 0.35:
            calls.append(["add_links", [[rng.choice(used), rng.choice(LINKS), rng.choice(used)] for _ in range(rng.randint(0, 3))]])
        elif r < 0.45:
            calls.append(["add_origin", rng.choice(ORIGS), rng.choice(used)])
        elif r < 0.55:
            calls.append(["add_destination", rng.choice(DESTS), rng.choice(used)])
        elif r < 0.65:
            k = rng.randint(0, 3)
            if rng.random() < 0.7:   # well-formed
                p = [rng.choice(used)]
                for _ in range(max(1, k)):
                    p += [rng.choice(LINKS), rng.choice(used)]
            else:                    # any shape
                p = [rng.choice(used + LINKS) for _ in range(rng.randint(0, 5))]
            calls.append(["add_path", p, rng.choice(["", "", "o1", "r1", "o2"]), rng.choice(["", "", "d1", "d2"])])
        elif r < 0.90:
            calls.append(["read", rng.choice(LOOKUPS)])
        elif r < 0.95:
            calls.append(["is_valid"])
        else:
            calls.append([rng.choice(["in_links", "out_links"]), rng.choice(used)])
    return calls


def _record(args):
    tid, calls = args
    import buildrun
    from sym_metanet.errors import InvalidNetworkError
    U = buildrun.Universe()
    obs, done = [], []
    for c in calls:
        if c[0] in ("in_links", "out_links") and c[1] not in [U.idof(n) for n in U.net.graph.nodes]:
            continue  # the view of a node that is not in the graph is not part of the model
        kind, payload = U.call(c)
        g = U.graph()
        o = {"res": [kind, payload if payload is not None else ""], "nodes": g["nodes"], "links": g["links"],
             "orig": g["orig"], "dest": g["dest"], "raised": ""}
        if c[0] == "is_valid":
            try:
                U.net.is_valid(raises=True)
                o["raised"] = "none"
            except InvalidNetworkError:
                o["raised"] = "InvalidNetworkError"
            except BaseException as e:  # noqa: BLE001
                o["raised"] = type(e).__name__
        obs.append(o)
        done.append(c)
        if g["non_nodes"]:
            break  # the graph is corrupted (C09): stop here, TLC reports it
    return {"id": tid, "calls": done, "obs": obs}


def run(pid: str, tier: str) -> dict:
    import buildrun
    seed = common.seed()
    ntr, length = (150, 25) if tier == "quick" else (3000, 40)
    rng = random.Random(seed * 104729 + 7)
    hist = [(f"h{seed}-{i}", rand_history(rng, rng.randint(3, length))) for i in range(ntr)]
    ctx = mp.get_context("spawn")
    with ctx.Pool(min(NCPU, 8)) as pool:
        traces = pool.map(_record, hist, chunksize=16)
    names = {i: buildrun.name_of(i) for i in NODES + LINKS + ORIGS + DESTS}
    shards = max(1, min(NCPU, len(traces) // 20))
    d = WORK / f"btrace-{os.getpid()}-{time.time_ns()}"
    d.mkdir(parents=True, exist_ok=True)
    files = []
    for k in range(shards):
        p = d / f"s{k}.ndjson"
        with p.open("w") as f:
            f.write(json.dumps({"names": names}) + "\n")
            for t in traces[k::shards]:
                f.write(json.dumps(t) + "\n")
        files.append(p)
    try:
        with ThreadPoolExecutor(shards) as ex:
            results = list(ex.map(lambda p: run_tlc("Trace_Build.tla", cfg="Trace_Build.cfg", env={"TRACE_FILE": str(p)},
                                                    workers=1, tag=p.name), files))
        verdicts, states = {}, 0
        for p, res in zip(files, results):
            vs = printed(res["out"], "VERDICT")
            n = sum(1 for _ in p.open()) - 1
            if not res["ok"] or len(vs) != n:
                shutil.copy(p, WORK / "last-failed-btrace.ndjson")
                raise MachineryError(f"Trace_Build gave {len(vs)}/{n} verdicts (rc={res['rc']}):\n" + tlc_error_excerpt(res["out"]))
            states += res["states"]
            for v in vs:
                verdicts[v["id"]] = v
    finally:
        shutil.rmtree(d, ignore_errors=True)
    pref = {"C06": "c06.", "C08": "c08.", "C09": "c09."}[pid]
    viol = []
    for t in traces:
        v = verdicts[t["id"]]
        for step, clause in v["fails"]:
            if clause.startswith(pref):
                viol.append({"signature": f"{pid}|{clause}|{json.dumps(t['calls'][step - 1])}",
                             "summary": f"recorded history {t['id']} step {step} ({json.dumps(t['calls'][step - 1])}): {clause}",
                             "payload": {"kind": "buildtrace", "trace": {"id": t["id"], "calls": t["calls"][:step]}, "clause": clause}})
    return {"violations": viol, "states": states, "traces": len(traces), "calls": sum(len(t["calls"]) for t in traces),
            "samples": [{"recorded_history": traces[0]["calls"][:12]}]}

"""Direction B for the construction layer: seeded random histories over a larger universe are
executed by the real library, recorded call by call, and validated by TLC (Trace_Build.tla)."""
from __future__ import annotations

import json
import multiprocessing as mp
import os
import random
import shutil
import time
from concurrent.futures import ThreadPoolExecutor

import common
from common import MachineryError, NCPU, WORK, printed, run_tlc, tlc_error_excerpt

NODES = [f"n{i}" for i in range(1, 7)]
LINKS = [f"l{i}" for i in range(1, 7)]
ORIGS = ["o1", "o2", "o3", "o4", "r1", "r2", "r3", "r4"]
DESTS = ["d1", "d2", "d3", "d4"]
LOOKUPS = ["nodes_by_name", "links_by_name", "nodes_by_link", "origins", "origins_by_name", "origins_by_node",
           "destinations", "destinations_by_name", "destinations_by_node"]


def rand_history(rng: random.Random, n: int):
    calls = []
    used = NODES[: rng.randint(2, 6)]
    for _ in range(n):
        r = rng.random()
        if r < 0.07:
            calls.append(["add_node", rng.choice(used)])
        elif r < 0.10:
            calls.append(["add_nodes", [rng.choice(used) for _ in range(rng.randint(0, 3))]])
        elif r < 0.30:
            calls.append(["add_link", rng.choice(used), rng.choice(LINKS), rng.choice(used)])
        elif r < 0.35:
            calls.append(["add_links", [[rng.choice(used), rng.choice(LINKS), rng.choice(used)] for _ in range(rng.randint(0, 3))]])
        elif r < 0.45:
            calls.append(["add_origin", rng.choice(ORIGS), rng.choice(used)])
        elif r < 0.55:
            calls.append(["add_destination", rng.choice(DESTS), rng.choice(used)])
        elif r < 0.65:
            k = rng.randint(0, 3)
            if rng.random() < 0.7:   # well-formed
                p = [rng.choice(used)]
                for _ in range(max(1, k)):
                    p += [rng.choice(LINKS), rng.choice(used)]
            else:                    # any shape
                p = [rng.choice(used + LINKS) for _ in range(rng.randint(0, 5))]
            calls.append(["add_path", p, rng.choice(["", "", "o1", "r1", "o2"]), rng.choice(["", "", "d1", "d2"])])
        elif r < 0.69:
            # a call that raises part-way, after the graph has already changed: None among the nodes, a malformed link
            # description in the middle of a bulk call
            x = rng.random()
            if x < 0.3:
                ns = [rng.choice(used) for _ in range(rng.randint(1, 3))]
                ns.insert(rng.randint(0, len(ns)), "None")
                calls.append(["add_nodes", ns])
            elif x < 0.8:
                ts = [[rng.choice(used), rng.choice(LINKS), rng.choice(used)] for _ in range(rng.randint(1, 3))]
                ts.insert(rng.randint(0, len(ts)), rng.choice([[rng.choice(used), rng.choice(LINKS)], [rng.choice(used), rng.choice(used)]]))
                calls.append(["add_links", ts])
            else:
                calls.append(["add_link", rng.choice(used), rng.choice(LINKS), "None"])
        elif r < 0.90:
            calls.append(["read", rng.choice(LOOKUPS)])
        elif r < 0.95:
            calls.append(["is_valid"])
        else:
            calls.append([rng.choice(["in_links", "out_links"]), rng.choice(used)])
    return calls


def attach_history(rng: random.Random):
    """many origins and destinations over six nodes: the same object attached at several nodes, replaced, the element
    maps read between any two attachments (fast paths that only switch on for larger lookups)"""
    calls = [["add_path", ["n1", "l1", "n2", "l2", "n3", "l3", "n4", "l4", "n5", "l5", "n6"], "", ""]]
    at = {"o": {}, "d": {}}
    for _ in range(rng.randint(8, 20)):
        k = "o" if rng.random() < 0.6 else "d"
        pool = ORIGS if k == "o" else DESTS
        used = sorted(set(at[k].values()))
        el = rng.choice(used) if used and rng.random() < 0.35 else rng.choice(pool)     # again somewhere else, or any
        node = rng.choice(NODES)
        calls.append(["add_origin" if k == "o" else "add_destination", el, node])
        at[k][node] = el
        r = rng.random()
        names = ["origins", "origins_by_node", "origins_by_name"] if k == "o" else ["destinations", "destinations_by_node", "destinations_by_name"]
        if r < 0.6:
            calls.append(["read", names[0]])
        elif r < 0.75:
            calls.append(["read", rng.choice(names[1:])])
        elif r < 0.9:
            calls.append(["is_valid"])
    calls += [["read", "origins"], ["read", "destinations"], ["is_valid"]]
    return calls


def big_near_valid_history(rng: random.Random):
    """a VALID chain of six nodes with a mainstream origin, three or four on-ramps and a destination (more elements than
    any enumerated shape), then two to four attachments - an element that is attached already, or another one - each
    followed by the question whether the network is valid: near-valid networks where one attachment decides"""
    steps = [["add_link", f"n{i}", f"l{i}", f"n{i + 1}"] for i in range(1, 6)]
    ramps = rng.sample([2, 3, 4, 5], rng.choice([3, 4]))
    steps += [["add_origin", "o2", "n1"], ["add_destination", "d1", "n6"]] + [["add_origin", f"r{j + 1}", f"n{a}"] for j, a in enumerate(sorted(ramps))]
    rng.shuffle(steps)
    calls = steps + [["is_valid"]]
    at = {st[2]: st[1] for st in steps if st[0] == "add_origin"}
    for _ in range(rng.randint(2, 4)):
        if rng.random() < 0.75:
            el = rng.choice(sorted(set(at.values()))) if rng.random() < 0.5 else rng.choice(ORIGS)
            node = rng.choice(NODES)
            calls.append(["add_origin", el, node])
            at[node] = el
        else:
            calls.append(["add_destination", rng.choice(DESTS), rng.choice(NODES)])
        calls.append(["is_valid"] if rng.random() < 0.7 else ["read", rng.choice(["origins", "destinations"])])
    calls.append(["is_valid"])
    return calls


def near_valid_history(rng: random.Random, shape: dict):
    """a valid network enumerated by TLC (DynCases shapes), built through the API in random order (single calls, bulk
    calls, paths), then perturbed by 0-2 further calls; validity is asked after the construction and after every
    perturbation.  Near-valid graphs are where a single condition decides the verdict."""
    n = shape["n"]
    node = lambda a: f"n{a}"  # noqa: E731
    steps = [["add_link", node(a), f"l{j + 1}", node(b)] for j, (a, b) in enumerate(shape["edges"])]
    no, nr, nd = 0, 0, 0
    for a in range(1, n + 1):
        k = shape["orig"][a - 1]
        if k == "ramp":
            nr += 1
            steps.append(["add_origin", f"r{nr}", node(a)])
        elif k != "none":
            no += 1
            steps.append(["add_origin", f"o{2 * no - (1 if k == 'ideal' else 0)}" if 2 * no <= 4 else f"o{no}", node(a)])
        if shape["dest"][a - 1] != "none":
            nd += 1
            steps.append(["add_destination", f"d{nd}", node(a)])
    rng.shuffle(steps)
    calls = []
    i = 0
    while i < len(steps):
        st = steps[i]
        if st[0] == "add_link" and rng.random() < 0.3:
            o = next((x for x in steps[i + 1:] if x[0] == "add_origin" and x[2] == st[1]), None)
            d = next((x for x in steps[i + 1:] if x[0] == "add_destination" and x[2] == st[3]), None)
            if o:
                steps.remove(o)
            if d:
                steps.remove(d)
            calls.append(["add_path", [st[1], st[2], st[3]], o[1] if o else "", d[1] if d else ""])
        elif st[0] == "add_link" and rng.random() < 0.2 and i + 1 < len(steps) and steps[i + 1][0] == "add_link":
            calls.append(["add_links", [st[1:], steps[i + 1][1:]]])
            i += 1
        else:
            calls.append(st)
        i += 1
    calls.append(["is_valid"])
    used = [node(a) for a in range(1, n + 1)]
    for _ in range(rng.randint(0, 2)):
        x = rng.random()
        pool = used + ([f"n{n + 1}"] if n < 6 and rng.random() < 0.25 else [])
        if x < 0.45:
            calls.append(["add_link", rng.choice(pool), rng.choice(LINKS[: len(shape["edges"]) + 2]), rng.choice(pool)])
        elif x < 0.65:
            calls.append(["add_origin", rng.choice(ORIGS), rng.choice(pool)])
        elif x < 0.85:
            calls.append(["add_destination", rng.choice(DESTS), rng.choice(pool)])
        else:
            calls.append(["add_node", rng.choice(pool)])
        calls.append(["is_valid"])
    return calls


def _record(args):
    tid, calls = args
    import buildrun
    from sym_metanet.errors import InvalidNetworkError
    U = buildrun.Universe(shared=sum(map(ord, str(tid))) % 2 == 1)
    obs, done = [], []
    for c in calls:
        if c[0] in ("in_links", "out_links") and c[1] not in [U.idof(n) for n in U.net.graph.nodes]:
            continue  # the view of a node that is not in the graph is not part of the model
        kind, payload = U.call(c)
        g = U.graph()
        o = {"res": [kind, payload if payload is not None else ""], "nodes": g["nodes"], "links": g["links"],
             "orig": g["orig"], "dest": g["dest"], "raised": ""}
        if c[0] == "is_valid":
            try:
                U.net.is_valid(raises=True)
                o["raised"] = "none"
            except InvalidNetworkError:
                o["raised"] = "InvalidNetworkError"
            except BaseException as e:  # noqa: BLE001
                o["raised"] = type(e).__name__
        obs.append(o)
        done.append(c)
        if g["non_nodes"]:
            break  # the graph is corrupted (C09): stop here, TLC reports it
    return {"id": tid, "calls": done, "obs": obs}


def run(pid: str, tier: str) -> dict:
    import buildrun
    seed = common.seed()
    import dyncases
    ntr, length, nshape = (600, 25, 600) if tier == "quick" else (3000, 40, 3000)
    rng = random.Random(seed * 104729 + 7)
    hist = [(f"h{seed}-{i}", rand_history(rng, rng.randint(3, length))) for i in range(ntr)]
    shapes = []
    for nm in ((3, 3), (4, 4)) if tier == "quick" else ((3, 3), (4, 4), (4, 5)):
        sp, _ = dyncases.shapes(*nm)
        shapes += [json.loads(l) for l in sp.open()]
    shapes = [s_ for s_ in shapes if len(s_["edges"]) <= 6]
    rng.shuffle(shapes)
    hist += [(f"nv{seed}-{i}", near_valid_history(rng, shapes[i % len(shapes)])) for i in range(nshape)]
    hist += [(f"at{seed}-{i}", attach_history(rng)) for i in range(ntr // 2)]
    hist += [(f"bnv{seed}-{i}", big_near_valid_history(rng)) for i in range(ntr)]
    ctx = mp.get_context("spawn")
    with ctx.Pool(min(NCPU, 8)) as pool:
        traces = pool.map(_record, hist, chunksize=16)
    names = {i: buildrun.name_of(i) for i in NODES + LINKS + ORIGS + DESTS}
    shards = max(1, min(NCPU, len(traces) // 20))
    d = WORK / f"btrace-{os.getpid()}-{time.time_ns()}"
    d.mkdir(parents=True, exist_ok=True)
    files = []
    for k in range(shards):
        p = d / f"s{k}.ndjson"
        with p.open("w") as f:
            f.write(json.dumps({"names": names}) + "\n")
            for t in traces[k::shards]:
                f.write(json.dumps(t) + "\n")
        files.append(p)
    try:
        with ThreadPoolExecutor(shards) as ex:
            results = list(ex.map(lambda p: run_tlc("Trace_Build.tla", cfg="Trace_Build.cfg", env={"TRACE_FILE": str(p)},
                                                    workers=1, tag=p.name), files))
        verdicts, states = {}, 0
        for p, res in zip(files, results):
            vs = printed(res["out"], "VERDICT")
            n = sum(1 for _ in p.open()) - 1
            if not res["ok"] or len(vs) != n:
                shutil.copy(p, WORK / "last-failed-btrace.ndjson")
                raise MachineryError(f"Trace_Build gave {len(vs)}/{n} verdicts (rc={res['rc']}):\n" + tlc_error_excerpt(res["out"]))
            states += res["states"]
            for v in vs:
                verdicts[v["id"]] = v
    finally:
        shutil.rmtree(d, ignore_errors=True)
    pref = {"C06": "c06.", "C08": "c08.", "C09": "c09."}[pid]
    viol = []
    for t in traces:
        v = verdicts[t["id"]]
        for step, clause in v["fails"]:
            if clause.startswith(pref):
                viol.append({"signature": f"{pid}|{clause}|{json.dumps(t['calls'][step - 1])}",
                             "summary": f"recorded history {t['id']} step {step} ({json.dumps(t['calls'][step - 1])}): {clause}",
                             "payload": {"kind": "buildtrace", "trace": {"id": t["id"], "calls": t["calls"][:step]}, "clause": clause}})
    return {"violations": viol, "states": states, "traces": len(traces), "calls": sum(len(t["calls"]) for t in traces),
            "samples": [{"recorded_history": traces[0]["calls"][:12]}]}

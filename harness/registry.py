"""property id -> check function(pid, tier) -> result dict"""
import dyncheck

CHECKS = {}
for _p in dyncheck.PLANS:
    CHECKS[_p] = dyncheck.run
import buildcheck

for _p in buildcheck.PLANS:
    CHECKS[_p] = buildcheck.run
import lifecheck

for _p in lifecheck.PLANS:
    CHECKS[_p] = lifecheck.run

"""property id -> check function(pid, tier) -> result dict"""
import dyncheck

CHECKS = {}
for _p in dyncheck.PLANS:
    CHECKS[_p] = dyncheck.run

"""property id -> check function(pid, tier) -> result dict"""
import dyncheck

CHECKS = {}
for _p in dyncheck.PLANS:
    if _p not in ("C12", "C13"):
        CHECKS[_p] = dyncheck.run
import buildcheck

for _p in buildcheck.PLANS:
    CHECKS[_p] = buildcheck.run
import lifecheck

for _p in lifecheck.PLANS:
    CHECKS[_p] = lifecheck.run
import primcheck

CHECKS["C15"] = primcheck.run


def merged(*runners):
    def run(pid, tier):
        parts = [r(pid, tier) for r in runners]
        out = parts[0]
        for b in parts[1:]:
            out["violations"] += b["violations"]
            c, d = out["coverage"], b["coverage"]
            c["states"] += d["states"]
            c["transitions"] += d["transitions"]
            c["traces_validated_against_impl"] += d["traces_validated_against_impl"]
            c["samples"] = c["samples"][:4] + d["samples"][:2]
            c["explanation"] += " || " + d["explanation"]
            for k, v in d.items():
                c.setdefault(k, v)
            out["assumptions"] = sorted(set(out.get("assumptions", []) + b.get("assumptions", [])))
            out["headline"] += " || " + b["headline"]
            out["drift"] = out.get("drift", []) + b.get("drift", [])
        return out
    return run


CHECKS["C17"] = merged(dyncheck.run, primcheck.run)
CHECKS["C12"] = merged(lifecheck.run, dyncheck.run)
CHECKS["C13"] = merged(lifecheck.run, dyncheck.run)

import sesscheck

CHECKS["SESS19"] = lambda pid, tier: sesscheck.run("C19", tier)   # Session.tla alone (development aid)
CHECKS["SESS07"] = lambda pid, tier: sesscheck.run("C07", tier)
CHECKS["C19"] = merged(lifecheck.run, sesscheck.run)
CHECKS["C07"] = merged(dyncheck.run, sesscheck.run)
CHECKS["C06"] = merged(buildcheck.run, sesscheck.run)   # validation asked in every session state (after steps, failures, replacements)

import extracheck

CHECKS["EXTRA"] = extracheck.run   # behaviours beyond the listed properties (not in MANIFEST)

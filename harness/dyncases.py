"""TLC-generated dynamics cases (DynCases.tla): shapes and decorated cases, cached by
specification hash and parameters (they depend on the specification and the seed only,
never on the repository)."""
from __future__ import annotations

import json
from concurrent.futures import ThreadPoolExecutor
from pathlib import Path

from common import prune_cache as common_prune
from common import CACHE, MachineryError, NCPU, WORK, printed, run_tlc, spec_hash, tlc_error_excerpt

CFG = """CONSTANTS Mode = "{mode}"
 MaxNodes = {n}
 MaxLinks = {m}
 Seed = {seed}
 Variants = {variants}
 Generic = {generic}
 Corners = {corners}
 Family = "{family}"
 Shard = {shard}
 NShards = {nshards}
INIT Init
NEXT Next
CHECK_DEADLOCK FALSE
"""

DICT_FIELDS = (("net", "origins"), ("net", "dests"), ("x", "w"), ("u", "vctrl"), ("u", "o"), ("d", "o"), ("d", "dest"))


def normalize(case: dict) -> dict:
    """TLC's ToJson prints empty functions as []: restore {} where objects are expected"""
    for a, b in DICT_FIELDS:
        if isinstance(case[a].get(b), list) and not case[a][b]:
            case[a][b] = {}
    return case


def _cfg(tag: str, **kw) -> str:
    d = WORK / "cfg"
    d.mkdir(parents=True, exist_ok=True)
    p = d / f"DynCases-{tag}.cfg"
    p.write_text(CFG.format(**kw))
    return str(p)


def _key(**kw) -> str:
    h = spec_hash("DynCases.tla", "Metanet.tla", "Laws.tla", "Real.java", "Real.tla")
    return h + "-" + "-".join(f"{k}{v}" for k, v in sorted(kw.items()))


def shapes(n: int, m: int) -> tuple[Path, dict]:
    CACHE.mkdir(exist_ok=True)
    key = _key(mode="shapes", n=n, m=m)
    p, meta = CACHE / f"shapes-{key}.ndjson", CACHE / f"shapes-{key}.meta.json"
    common_prune("shapes", key)
    if p.exists() and meta.exists():
        return p, json.loads(meta.read_text())
    cfg = _cfg(f"shapes-{n}-{m}", mode="shapes", n=n, m=m, seed=0, variants=1, generic=1, corners=0, family="base",
               shard=0, nshards=1)
    res = run_tlc("DynCases.tla", cfg=cfg, env={"SHAPES_FILE": ""}, workers=1, heap="6g", tag=key)
    if not res["ok"]:
        raise MachineryError("DynCases (shapes) failed:\n" + tlc_error_excerpt(res["out"]))
    sh = printed(res["out"], "SHAPE")
    if not sh:
        raise MachineryError("DynCases produced no shapes")
    p.write_text("".join(json.dumps(s) + "\n" for s in sh))
    info = {"shapes": len(sh), "states": res["states"], "generated": res["generated"], "wall": res["wall"]}
    meta.write_text(json.dumps(info))
    return p, info


def cases(n: int, m: int, seed: int, variants: int, generic: int, corners: int, family: str = "base",
          shards: int = NCPU) -> tuple[list[dict], dict]:
    """all cases of the given bound (cached); returns (cases, info)"""
    CACHE.mkdir(exist_ok=True)
    key = _key(mode="cases", n=n, m=m, seed=seed, v=variants, g=generic, c=corners, f=family)
    p, meta = CACHE / f"cases-{key}.ndjson", CACHE / f"cases-{key}.meta.json"
    common_prune("cases", key)
    if p.exists() and meta.exists():
        return [json.loads(l) for l in p.open()], json.loads(meta.read_text())
    sp, sinfo = shapes(n, m)

    def one(k):
        cfg = _cfg(f"{key}-{k}", mode="cases", n=n, m=m, seed=seed, variants=variants, generic=generic, corners=corners,
                   family=family, shard=k, nshards=shards)
        return run_tlc("DynCases.tla", cfg=cfg, env={"SHAPES_FILE": str(sp)}, workers=1, heap="3g", tag=f"{key}-{k}")

    with ThreadPoolExecutor(shards) as ex:
        results = list(ex.map(one, range(shards)))
    out, states, gen = [], 0, 0
    for res in results:
        if not res["ok"]:
            raise MachineryError("DynCases (cases) failed:\n" + tlc_error_excerpt(res["out"]))
        out += [normalize(c) for c in printed(res["out"], "CASE")]
        states, gen = max(states, res["states"]), max(gen, res["generated"])
    out.sort(key=lambda c: (c["shape"], c["variant"], c["id"]))
    bad = [c["id"] for c in out if not c.get("valid_in_model")]
    if bad:
        raise MachineryError(f"case generator produced networks that the specification calls invalid: {bad[:5]}")
    p.write_text("".join(json.dumps(c) + "\n" for c in out))
    info = {"shapes": sinfo["shapes"], "shape_bound": [n, m], "cases": len(out), "states": states + sinfo["states"],
            "generated": gen + sinfo["generated"], "family": family, "variants": variants, "generic": generic,
            "corners": corners}
    meta.write_text(json.dumps(info))
    return out, info

"""C15 (and the primitive half of C17): both engines against the scalar laws, primitive by primitive."""
from __future__ import annotations

import json
import multiprocessing as mp
import os
import shutil
import time
from concurrent.futures import ThreadPoolExecutor

import common
from common import prune_cache as common_prune
from common import CACHE, MachineryError, NCPU, WORK, printed, run_tlc, spec_hash, tlc_error_excerpt


def cfg(mode, level):
    d = WORK / "cfg"
    d.mkdir(parents=True, exist_ok=True)
    p = d / f"Prim-{mode}-{level}.cfg"
    p.write_text(f'CONSTANTS Mode = "{mode}"\n Level = {level}\nINIT Init\nNEXT Next\nCHECK_DEADLOCK FALSE\n')
    return str(p)


def cases(level):
    key = spec_hash("Prim.tla", "Laws.tla", "Real.java") + f"-{level}"
    CACHE.mkdir(exist_ok=True)
    p = CACHE / f"prim-{key}.ndjson"
    common_prune("prim", key)
    if p.exists():
        return [json.loads(l) for l in p.open()]
    res = run_tlc("Prim.tla", cfg=cfg("gen", level), env={"TRACE_FILE": ""}, workers=1, heap="6g", tag=key, extra=[])
    if not res["ok"]:
        raise MachineryError("Prim (gen) failed:\n" + tlc_error_excerpt(res["out"]))
    cs_ = printed(res["out"], "PCASE")
    if not cs_:
        raise MachineryError("Prim generated no case")
    p.write_text("".join(json.dumps(c) + "\n" for c in cs_))
    return cs_


def _chunk(ch):
    import primrun
    return primrun.run_chunk(ch)


def run(pid: str, tier: str) -> dict:
    level = 1 if tier == "quick" else 2
    cs_ = cases(level)
    n = NCPU
    chunks = [cs_[i::n] for i in range(n)]
    ctx = mp.get_context("spawn")
    with ctx.Pool(n) as pool:
        recs = [r for ch in pool.map(_chunk, chunks) for r in ch]
    d = WORK / f"ptrace-{os.getpid()}-{time.time_ns()}"
    d.mkdir(parents=True, exist_ok=True)
    files = []
    for k in range(n):
        p = d / f"s{k}.ndjson"
        p.write_text("".join(json.dumps(r) + "\n" for r in recs[k::n]))
        files.append(p)
    try:
        with ThreadPoolExecutor(n) as ex:
            results = list(ex.map(lambda p: run_tlc("Prim.tla", cfg=cfg("check", level), env={"TRACE_FILE": str(p)}, workers=1,
                                                    tag=p.name), files))
        verdicts, states = [], 0
        for p, res in zip(files, results):
            vs = printed(res["out"], "VERDICT")
            m = sum(1 for _ in p.open())
            if not res["ok"] or len(vs) != m:
                shutil.copy(p, WORK / "last-failed-ptrace.ndjson")
                raise MachineryError(f"Prim (check) gave {len(vs)}/{m} verdicts (rc={res['rc']}):\n" + tlc_error_excerpt(res["out"]))
            states += res["states"]
            verdicts += vs
    finally:
        shutil.rmtree(d, ignore_errors=True)
    model = [v for v in verdicts if any(f[0].startswith("model.") for f in v["fails"])]
    if model:
        raise MachineryError(f"a theorem of the specification failed on a grid point: {model[:2]}")
    byid = {r["id"]: r for r in recs}
    rel = (lambda f: f[0].endswith(".bounds")) if pid == "C17" else (lambda f: not f[0].endswith(".bounds"))
    viol = []
    for v in verdicts:
        fails = [f for f in v["fails"] if rel(f)]
        if fails:
            kinds = "+".join(sorted({f[0] for f in fails}))
            viol.append({"signature": f"{pid}|{v['prim']}|{kinds}",
                         "summary": f"{v['prim']} {json.dumps(byid[v['id']]['args'])[:200]}: {json.dumps(fails[:3])} got {json.dumps(byid[v['id']]['obs'])[:200]}",
                         "payload": {"kind": "prim", "case": byid[v["id"]], "fails": fails}})
    per = {}
    for r in recs:
        per[r["prim"]] = per.get(r["prim"], 0) + 1
    cov = {"states": max(1, states), "transitions": max(1, len(recs)), "traces_validated_against_impl": len(recs),
           "samples": [{k: r[k] for k in ("id", "prim", "shape", "args")} for r in (recs[:1] + recs[len(recs) // 2:len(recs) // 2 + 1] + recs[-1:])],
           "exhaustive": False, "grid_enumerated_completely": True, "grid_points_per_primitive": per, "engines": ["numpy", "casadi(DM through SX engine)"],
           "explanation": "full product grids (boundaries, ties, both sides of every min/max/if) per primitive, enumerated by TLC; each point "
                          "called on both engines as 0-d / length-1 / length-3 arguments; results validated by TLC against Laws.tla and against each other"}
    return {"violations": viol, "coverage": cov, "level": "model_checking",
            "assumptions": ["TLC + Real.class", "grids are finite samples of the continuous argument space chosen at every boundary of the laws"],
            "headline": f"{len(recs)} primitive calls x 2 engines validated, {len(viol)} findings"}

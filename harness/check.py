#!/venv/bin/python
"""Entry point of every registered check:  check.py <Cxx> [--tier quick|thorough] | --replay <file>

exit 0  the property held on everything explored (KNOWN-FINDING lines possible)
exit 1  + 'VIOLATION property=<id> replay=<path>' lines
exit 2  the machinery itself failed (TLC error, specification theorem failed, harness crash)
"""
from __future__ import annotations

import argparse
import json
import os
import sys
import time
import traceback

sys.path.insert(0, os.path.dirname(os.path.abspath(__file__)))
for _v in ("OMP_NUM_THREADS", "OPENBLAS_NUM_THREADS", "MKL_NUM_THREADS", "NUMEXPR_NUM_THREADS"):
    os.environ.setdefault(_v, "1")   # many worker processes: one thread each
os.environ.setdefault("PYTHONHASHSEED", "0")

import common  # noqa: E402
from common import MachineryError  # noqa: E402


def main() -> int:
    ap = argparse.ArgumentParser()
    ap.add_argument("prop", nargs="?")
    ap.add_argument("--tier", default=None)
    ap.add_argument("--replay", default=None)
    a = ap.parse_args()
    tier = a.tier or common.tier()
    if tier not in ("quick", "thorough"):
        tier = "quick"
    try:
        common.ensure_built()
        if a.replay:
            import replay
            return replay.replay(a.replay)
        if not a.prop:
            ap.error("property id required")
        pid = a.prop.upper()
        import registry
        if pid not in registry.CHECKS:
            print(f"unknown property {pid}")
            return 2
        t0 = time.time()
        res = registry.CHECKS[pid](pid, tier)
        return report(pid, tier, res, time.time() - t0)
    except MachineryError as e:
        print(f"MACHINERY-FAILURE: {e}")
        return 2
    except Exception:  # noqa: BLE001
        traceback.print_exc()
        print("MACHINERY-FAILURE: unexpected exception in the harness")
        return 2


def report(pid: str, tier: str, res: dict, wall: float) -> int:
    """res: {'violations': [ {signature, summary, payload} ], 'coverage': {...}, 'level': ..., 'assumptions': [...],
             'drift': [str]}"""
    known = [f for f in common.load_known_findings() if f["property"] == pid]
    new, seen_known = [], set()
    for v in res["violations"]:
        k = next((f for f in known if f["signature"] == v["signature"]), None)
        if k:
            seen_known.add(k["signature"])
        else:
            new.append(v)
    for f in known:
        if f["signature"] in seen_known:
            print(f"KNOWN-FINDING: property={pid} {f['what']}")
    for msg in res.get("drift", [])[:20]:
        print(f"MODEL-DRIFT: {msg}")
    # one replay file per distinct signature (first witness), at most 25 lines
    by_sig = {}
    for v in new:
        by_sig.setdefault(v["signature"], v)
    for sig, v in list(by_sig.items())[:25]:
        path = common.write_replay(pid, {"property": pid, "signature": sig, "summary": v["summary"], **v["payload"]})
        print(f"VIOLATION property={pid} replay={path}  # {v['summary'][:300]}")
    if len(by_sig) > 25:
        print(f"... and {len(by_sig) - 25} further distinct violation signatures")
    cov = dict(res["coverage"])
    cov["violation_signatures"] = len(by_sig)
    if pid not in ("EXTRA", "SESS19", "SESS07"):   # EXTRA covers behaviours beyond the listed properties: no evidence file, not in MANIFEST
        common.write_evidence(pid, tier, res.get("level", "model_checking"), cov, wall, len(new), res.get("assumptions"))
    print(f"{pid} [{tier}] {'FAIL' if new else 'ok'}: {res.get('headline', '')} ({wall:.1f}s)")
    return 1 if new else 0


if __name__ == "__main__":
    sys.exit(main())

"""Direction B on the repository's OWN tests: every construction / validation call they make on a Network is recorded
(repotrace_plugin) and the traces are validated by TLC against NetBuild (Trace_Build.tla): the graph after every call
(C09) and every is_valid verdict (C06) - at every step, not only where the tests assert something."""
from __future__ import annotations

import json
import os
import subprocess
import sys

import common
from common import MachineryError, WORK, printed, run_tlc, tlc_error_excerpt

HERE = os.path.dirname(os.path.abspath(__file__))


def tla_set(xs):
    return "{" + ", ".join(f'"{x}"' for x in xs) + "}"


def run(pid: str) -> dict:
    out = WORK / f"repotrace-{os.getpid()}.ndjson"
    WORK.mkdir(exist_ok=True)
    env = dict(os.environ, REPOTRACE_OUT=str(out), PYTHONPATH=f"{common.REPO / 'src'}:{HERE}")
    tests = str(common.REPO / "tests")
    p = subprocess.run([sys.executable, "-m", "pytest", "-q", "-p", "no:cacheprovider", "-p", "repotrace_plugin",
                        f"--ignore={tests}/test_examples.py", tests], env=env, capture_output=True, text=True, cwd=str(WORK))
    if not out.exists():
        return {"violations": [], "traces": 0, "calls": 0, "states": 0, "note": "the repository's tests could not be recorded: " + p.stdout[-200:]}
    lines = [json.loads(l) for l in out.open()]
    out.unlink()
    names, traces = lines[0]["names"], lines[1:]
    ok = lambda i: i == "" or i[0] in "nlord"  # noqa: E731

    def ids_of(c):
        for x in c[1:]:
            if isinstance(x, list):
                for y in x:
                    yield from (y if isinstance(y, list) else [y])
            else:
                yield x
    traces = [t for t in traces if all(ok(i) for c in t["calls"] for i in ids_of(c))]
    if not traces:
        return {"violations": [], "traces": 0, "calls": 0, "states": 0, "note": "no recordable trace"}
    ids = sorted(names)
    by = lambda p_: [i for i in ids if i[0] == p_] or [p_ + "0"]  # noqa: E731
    cfg = WORK / "cfg" / f"Trace_Build-repo-{os.getpid()}.cfg"
    cfg.parent.mkdir(parents=True, exist_ok=True)
    cfg.write_text("CONSTANTS\n NodeIds = %s\n LinkIds = %s\n OrigIds = %s\n RampIds = %s\n DestIds = %s\n InvalTable <- NoInvalTable\n"
                   " NameOf <- TraceNameOf\n InvalImplicitNodes = TRUE\n DestNameWrite = FALSE\n PathEndChecked = TRUE\nINIT Init\nNEXT Next\nCHECK_DEADLOCK FALSE\n"
                   % (tla_set(by("n")), tla_set(by("l")), tla_set(by("o") + by("r")), tla_set(by("r")), tla_set(by("d"))))
    f = WORK / f"repotrace-in-{os.getpid()}.ndjson"
    for i in by("n") + by("l") + by("o") + by("r") + by("d"):
        names.setdefault(i, i)
    with f.open("w") as fh:
        fh.write(json.dumps({"names": names}) + "\n")
        for t in traces:
            fh.write(json.dumps(t) + "\n")
    try:
        res = run_tlc("Trace_Build.tla", cfg=str(cfg), env={"TRACE_FILE": str(f)}, workers=1, tag="repotrace")
        vs = printed(res["out"], "VERDICT")
        if not res["ok"] or len(vs) != len(traces):
            raise MachineryError(f"Trace_Build on the repository's test traces gave {len(vs)}/{len(traces)} verdicts:\n" + tlc_error_excerpt(res["out"]))
    finally:
        f.unlink(missing_ok=True)
        cfg.unlink(missing_ok=True)
    pref = {"C06": "c06.", "C08": "c08.", "C09": "c09."}[pid]
    byid = {t["id"]: t for t in traces}
    viol = []
    for v in vs:
        t = byid[v["id"]]
        for step, clause in v["fails"]:
            if clause.startswith(pref):
                viol.append({"signature": f"{pid}|repo test|{clause}|{json.dumps(t['calls'][step - 1])}",
                             "summary": f"execution of the repository's test {t.get('test', '')} step {step} {json.dumps(t['calls'][step - 1])}: {clause}",
                             "payload": {"kind": "buildtrace", "trace": {"id": t["id"], "calls": t["calls"][:step]}, "clause": clause}})
    return {"violations": viol, "traces": len(traces), "calls": sum(len(t["calls"]) for t in traces), "states": res["states"], "note": ""}

"""Checks decided through Lifecycle.tla: C12 (purity/repeatability), C13 (engine selection), C19 (readiness)."""
from __future__ import annotations

import json
import multiprocessing as mp

import common
import dynpipe
from common import prune_cache as common_prune
from common import CACHE, MachineryError, NCPU, WORK, printed, run_tlc, spec_hash, tlc_error_excerpt

CFG = """CONSTANTS MaxDepth = {depth}
 Profile = "{profile}"
 EmitOn = TRUE
INIT Init
NEXT Next
VIEW View
CONSTRAINT Bound
ACTION_CONSTRAINT Step
CHECK_DEADLOCK FALSE
"""
# (thorough depths one above quick: depth 6 of "ready" is 5*10^5 transitions, replayed three times - an hour on 16 cores)
PLANS = {"C19": dict(profile="ready", key="c19", quick=4, thorough=5, hist=dict(quick=4, thorough=5)),
         "C13": dict(profile="engine", key="c13", quick=4, thorough=5),
         "C12": dict(profile="pure", key="c12", quick=5, thorough=6)}


def transitions(profile, depth):
    key = spec_hash("Lifecycle.tla", "MC_Life.tla") + f"-{profile}-{depth}"
    CACHE.mkdir(exist_ok=True)
    p, meta = CACHE / f"life-{key}.ndjson", CACHE / f"life-{key}.meta.json"
    common_prune("life", key)
    if p.exists() and meta.exists():
        return [json.loads(l) for l in p.open()], json.loads(meta.read_text())
    d = WORK / "cfg"
    d.mkdir(parents=True, exist_ok=True)
    cfg = d / f"MC_Life-{key}.cfg"
    cfg.write_text(CFG.format(depth=depth, profile=profile))
    res = run_tlc("MC_Life.tla", cfg=str(cfg), workers=1, heap="6g", timeout=3 * 3600, tag=key)
    if res["rc"] != 0:
        raise MachineryError("MC_Life: the specification violates one of its properties or failed:\n" + tlc_error_excerpt(res["out"], 40))
    tr = printed(res["out"], "TRANS")
    if not tr:
        raise MachineryError("MC_Life printed no transition")
    p.write_text("".join(json.dumps(t) + "\n" for t in tr))
    info = {"states": res["states"], "transitions": res["generated"], "emitted": len(tr), "profile": profile, "depth": depth}
    meta.write_text(json.dumps(info))
    return tr, info


def _chunk(chunk):
    import liferun
    return [liferun.replay_transition(t) for t in chunk]


def _chunk_same_names(chunk):
    import liferun
    return [liferun.replay_transition(t, same_names=True) for t in chunk]


def _chunk_recycle(chunk):
    """histories that replace the destination, replayed with the replacement CREATED after the replaced element died"""
    import liferun
    return [liferun.replay_transition(t, recycle=True) if ["add_later", "D1"] in t["h"] else None for t in chunk]


def run(pid: str, tier: str) -> dict:
    plan = PLANS[pid]
    trans, info = transitions(plan["profile"], plan[tier])
    for t in trans:  # ToJson prints empty functions as []
        for k in ("vars", "nxt"):
            if isinstance(t[k], list):
                t[k] = {}
    if plan.get("hist"):
        # every HISTORY (none merged) of a few calls: state hidden in the implementation is not part of the model's state
        more, minfo = transitions("hist", plan["hist"][tier])
        for t in more:
            for k in ("vars", "nxt"):
                if isinstance(t[k], list):
                    t[k] = {}
        trans = trans + more
        info = dict(info, states=info["states"] + minfo["states"], transitions=info["transitions"] + minfo["transitions"])
    n = min(NCPU, max(1, len(trans) // 50))
    chunks = [c for c in (trans[i::n * 4] for i in range(n * 4)) if c]
    ctx = mp.get_context("spawn")
    with ctx.Pool(n) as pool:
        res = pool.map(_chunk, chunks)
        res2 = pool.map(_chunk_same_names, chunks) if pid == "C19" else []
        res3 = pool.map(_chunk_recycle, chunks) if pid == "C19" else []
    findings = [None] * len(trans)
    for ci, r in enumerate(res):
        for j, f in enumerate(r):
            findings[ci + j * len(chunks)] = f
    # C19 once more with every element of a kind carrying the same name (names are labels): outcome classes only
    for ci, r in enumerate(res2):
        for j, f in enumerate(r):
            g = findings[ci + j * len(chunks)]
            g["c19"] += [[x[0] + " (elements of a kind share one name)"] + x[1:] for x in f["c19"]]
            g["crash"] += [[x[0] + " (elements of a kind share one name)"] + x[1:] for x in f["crash"]]
    for ci, r in enumerate(res3):
        for j, f in enumerate(r):
            if f is not None:
                g = findings[ci + j * len(chunks)]
                g["c19"] += [[x[0] + " (replacement created after the replaced element died)"] + x[1:] for x in f["c19"]]
                g["crash"] += [[x[0] + " (replacement created after the replaced element died)"] + x[1:] for x in f["crash"]]
    viol, drift, dyn = [], [], []
    for t, f in zip(trans, findings):
        for item in f[plan["key"]] + f["crash"]:
            viol.append({"signature": f"{pid}|{item[0][:60]}|{json.dumps(t['h'][-1])}",
                         "summary": f"{item[0]} after history {json.dumps(t['h'])}: {json.dumps(item[1:])[:200]}",
                         "payload": {"kind": "life", "transition": t, "finding": item}})
        for item in f["drift"][:1]:
            drift.append(f"{item[0]} after {json.dumps(t['h'])}")
        if f["dyn"] is not None and pid == "C19":
            dyn.append((t, f["dyn"]))
    nval = 0
    if dyn:
        recs = [r for _, r in dyn]
        seen, uniq = set(), []
        for t, r in dyn:
            if r["id"] not in seen:
                seen.add(r["id"])
                uniq.append((t, r))
        verdicts = dynpipe.validate([r for _, r in uniq], tag="life")
        nval = len(uniq)
        for (t, r), v in zip(uniq, verdicts):
            bad = [x for x in v["fails"] if x[0] in ("fn.out", "fn.free", "fn.ok", "fn.name_in", "fn.name_out", "fn.size_in", "fn.size_out")]
            if bad:
                viol.append({"signature": f"{pid}|function does not reflect the most recent step|{json.dumps(t['h'][-2:])}",
                             "summary": f"compiled function differs from the specification's step with the parameters of the most recent step after {json.dumps(t['h'])}: {json.dumps(bad[:3])}",
                             "payload": {"kind": "life", "transition": t, "finding": bad[:10]}})
    import lifetrace
    b = lifetrace.run(pid, tier) if pid in ("C19", "C13") else {"violations": [], "states": 0, "traces": 0, "calls": 0, "numeric": 0, "samples": []}
    viol += b["violations"]
    cov = {"states": max(1, info["states"] + b["states"]), "transitions": max(1, info["transitions"]),
           "traces_validated_against_impl": len(trans) + nval + b["traces"] + b["numeric"],
           "recorded_histories": b["traces"], "recorded_calls": b["calls"], "recorded_functions_validated_numerically": b["numeric"],
           "samples": [{"history": t["h"], "expected_result": t["res"]} for t in (trans[:1] + trans[len(trans) // 2:len(trans) // 2 + 1] + trans[-2:])],
           "exhaustive": True, "profile": plan["profile"], "depth": plan[tier], "transitions_replayed": len(trans),
           "compiled_functions_validated_numerically": nval,
           "explanation": f"all interleavings of the lifecycle calls of profile '{plan['profile']}' up to {plan[tier]} calls explored by TLC "
                          "with the transition properties asserted; every generated transition replayed into the real library."}
    return {"violations": viol, "coverage": cov, "level": "model_checking", "drift": sorted(set(drift))[:10],
            "assumptions": ["TLC; the replay harness liferun.py (spy engine, type/identity observations)",
                            "fixed small network (chain with mainstream origin, ramp, speed-limited link, congested destination, two late replacements)"],
            "headline": f"{len(trans)} transitions replayed, {nval} compiled functions validated numerically, "
                        f"{b['traces']} recorded histories ({b['calls']} calls, {b['numeric']} functions) validated, {len(viol)} findings"}

"""Re-run one recorded violation against the current repository tree."""
from __future__ import annotations

import json

import dynpipe


def replay(path: str) -> int:
    rp = json.load(open(path))
    pid = rp.get("property", "?")
    if rp.get("kind") == "dyn":
        import dyncheck
        case = rp["case"]
        recs = dynpipe.execute([case], procs=1)
        verdicts = dynpipe.validate(recs, tag="replay")
        plan = dyncheck.PLANS.get(pid)
        fails = [f for f in verdicts[0]["fails"] if plan is None or plan["rel"](f)]
        print(json.dumps({"id": case["id"], "fails": fails}, indent=1)[:4000])
        if fails:
            print(f"VIOLATION property={pid} replay={path}")
            return 1
        print("replay: no failing clause on the current tree")
        return 0
    print("unknown replay kind")
    return 2

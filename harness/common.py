"""Shared plumbing of the verification harness: paths, TLC runner, exact-number
interchange, evidence and known-findings handling.  Standard library only."""
from __future__ import annotations

import hashlib
import json
import math
import os
import re
import subprocess
import sys
import time
from fractions import Fraction
from pathlib import Path

VERIF = Path(__file__).resolve().parent.parent
TLA = VERIF / "tla"
CACHE = VERIF / ".cache"
WORK = VERIF / "work"
EVIDENCE = VERIF / "evidence"
REPLAYS = VERIF / "replays"
REPO = Path(os.environ.get("VERIF_REPO", "/repo"))
TLA_JAR = "/opt/veriftools/tla/tla2tools.jar"
TLA_CP = f"{TLA_JAR}:/opt/veriftools/tla/CommunityModules-deps.jar"
NCPU = os.cpu_count() or 4


def seed() -> int:
    try:
        return int(os.environ.get("VERIF_SEED", "0"))
    except ValueError:
        return 0


class MachineryError(Exception):
    """The verification machinery itself failed (exit code 2, never a verdict)."""


# --------------------------------------------------------------------------- numbers
def fr(x) -> str:
    """exact interchange string of a float / int / Fraction: 'num/den', 'inf', '-inf', 'nan'"""
    if isinstance(x, Fraction):
        return f"{x.numerator}/{x.denominator}"
    if isinstance(x, bool):
        raise TypeError("bool is not a number here")
    if isinstance(x, int):
        return f"{x}/1"
    x = float(x)
    if math.isnan(x):
        return "nan"
    if math.isinf(x):
        return "inf" if x > 0 else "-inf"
    n, d = x.as_integer_ratio()
    return f"{n}/{d}"


def num(s) -> float:
    """float value of an interchange string (also accepts TLC's 'n/0' forms and decimals)"""
    if isinstance(s, (int, float)):
        return float(s)
    t = s.strip().lower()
    if t in ("nan", "0/0"):
        return math.nan
    if t in ("inf", "+inf", "infinity", "1/0"):
        return math.inf
    if t in ("-inf", "-infinity", "-1/0"):
        return -math.inf
    if "/" in t:
        a, b = t.split("/")
        if int(b) == 0:
            return math.nan if int(a) == 0 else math.copysign(math.inf, int(a))
        return float(Fraction(int(a), int(b)))
    return float(Fraction(t))


# --------------------------------------------------------------------------- TLC
_STATS = re.compile(r"(\d+) states generated, (\d+) distinct states found")


def ensure_built() -> None:
    """compile the Java operator override if it is missing or stale (cheap, idempotent)"""
    src, cls = TLA / "Real.java", TLA / "Real.class"
    if not cls.exists() or cls.stat().st_mtime < src.stat().st_mtime:
        r = subprocess.run(["javac", "-cp", TLA_JAR, "-d", str(TLA), str(src)], capture_output=True, text=True)
        if r.returncode != 0:
            raise MachineryError("javac Real.java failed:\n" + r.stdout + r.stderr)


def tlc_cmd(module: str, cfg: str | None, workers: int, metadir: Path, extra: list[str], heap: str) -> list[str]:
    cmd = ["java", "-XX:+UseSerialGC" if workers == 1 else "-XX:+UseParallelGC", f"-Xmx{heap}", "-Xss128m", f"-Djava.io.tmpdir={metadir}",
           "-cp", TLA_CP, "tlc2.TLC", "-metadir", str(metadir), "-noGenerateSpecTE",
           "-workers", str(workers)]
    if cfg:
        cmd += ["-config", cfg]
    cmd += extra + [module]
    return cmd


def prune_cache(prefix: str, key: str) -> None:
    """drop cached generator output of earlier versions of the specification (file names are <prefix>-<spec hash>-...)"""
    h = key.split("-")[0]
    for f in CACHE.glob(f"{prefix}-*"):
        parts = f.name.split("-")
        if len(parts) > 1 and parts[1].split(".")[0] != h:
            try:
                f.unlink()
            except OSError:
                pass


def _acquire_slots(heap: str) -> list:
    """Machine-wide bound on the memory of concurrently running TLC JVMs (several checks may run at once: selftest jobs,
    a quick run next to a thorough one): TLC_SLOTS slots of 3 GB heap each, held as advisory file locks that the
    kernel drops with the process.  Returns the open lock files."""
    import fcntl
    import tempfile
    total = int(os.environ.get("VERIF_TLC_SLOTS", "14"))
    gb = float(heap[:-1]) / (1024 if heap.endswith("m") else 1)
    need = min(total, max(1, -(-int(gb * 10) // 30)))
    d = Path(tempfile.gettempdir()) / "verif-tlc-slots"
    d.mkdir(exist_ok=True)
    held: list = []
    while True:
        for k in range(total):
            f = open(d / f"slot{k}", "w")
            try:
                fcntl.flock(f, fcntl.LOCK_EX | fcntl.LOCK_NB)
                held.append(f)
                if len(held) == need:
                    return held
            except OSError:
                f.close()
        for f in held:      # not enough free slots: release (no hold-and-wait) and retry
            f.close()
        held = []
        time.sleep(0.25 + 0.5 * (os.getpid() % 7) / 7)


def run_tlc(module: str, cfg: str | None = None, env: dict | None = None, workers: int = 1,
            extra: list[str] | None = None, timeout: int = 3600, heap: str = "3g", tag: str = "") -> dict:
    """Run TLC in tla/; returns {'out', 'rc', 'states', 'distinct', 'ok', 'wall'}.
    rc 0 = no error; 12 = invariant violated (safety), 13 = liveness; others = machinery trouble."""
    ensure_built()
    h = hashlib.sha1(f"{module}{cfg}{tag}{os.getpid()}{time.time_ns()}".encode()).hexdigest()[:12]
    metadir = WORK / "meta" / h
    metadir.mkdir(parents=True, exist_ok=True)
    e = dict(os.environ)
    e.update({k: str(v) for k, v in (env or {}).items()})
    slots = _acquire_slots(heap)
    t0 = time.time()
    try:
        p = subprocess.run(tlc_cmd(module, cfg, workers, metadir, extra or [], heap), cwd=TLA, env=e,
                           capture_output=True, text=True, timeout=timeout)
        out, rc = p.stdout + p.stderr, p.returncode
    except subprocess.TimeoutExpired as ex:
        out = (ex.stdout or b"").decode(errors="replace") if isinstance(ex.stdout, bytes) else (ex.stdout or "")
        rc = -9
    finally:
        for f in slots:
            f.close()
        subprocess.run(["rm", "-rf", str(metadir)])
    m = _STATS.findall(out)
    gen, dist = (int(m[-1][0]), int(m[-1][1])) if m else (0, 0)
    if "operator override from" not in out and "EXTENDS" in "":  # pragma: no cover
        pass
    return {"out": out, "rc": rc, "states": dist, "generated": gen, "ok": rc == 0, "wall": time.time() - t0}


def printed(out: str, prefix: str) -> list:
    """JSON payloads of lines printed by PrintT(prefix \\o " " \\o ToJson(v))"""
    res = []
    head = '"' + prefix + " "
    for line in out.splitlines():
        if line.startswith(head):
            try:
                s = json.loads(line)
            except json.JSONDecodeError as ex:
                raise MachineryError(f"cannot decode TLC output line: {line[:200]}") from ex
            res.append(json.loads(s[len(prefix) + 1:]))
    return res


def tlc_error_excerpt(out: str, n: int = 30) -> str:
    lines = [l for l in out.splitlines() if not l.startswith("Loading ") and not l.startswith("Parsing ")
             and not l.startswith("Semantic processing") and not l.startswith("Linting")]
    idx = next((i for i, l in enumerate(lines) if l.startswith("Error")), max(0, len(lines) - n))
    return "\n".join(lines[idx:idx + n])


def spec_hash(*names: str) -> str:
    h = hashlib.sha1()
    for n in sorted(names):
        h.update((TLA / n).read_bytes())
    return h.hexdigest()[:16]


# --------------------------------------------------------------------------- evidence / findings
def load_known_findings() -> list[dict]:
    p = VERIF / "known_findings.json"
    if not p.exists():
        return []
    return [f for f in json.loads(p.read_text()).get("findings", []) if f.get("status") == "finding"]


def write_evidence(pid: str, tier: str, level: str, coverage: dict, wall: float, violations: int,
                   assumptions: list[str] | None = None) -> Path:
    evdir = (WORK / "evidence-scratch") if os.environ.get("VERIF_NO_EVIDENCE") else EVIDENCE
    evdir.mkdir(parents=True, exist_ok=True)
    ev = {"property_id": pid, "tier": tier, "seed": seed(), "level": level, "coverage": coverage,
          "assumptions": assumptions or [], "wall_s": round(wall, 2), "violations": violations}
    p = evdir / f"{pid}.json"
    p.write_text(json.dumps(ev, indent=1, default=str) + "\n")
    return p


def write_replay(pid: str, payload: dict) -> Path:
    REPLAYS.mkdir(exist_ok=True)
    blob = json.dumps(payload, sort_keys=True, default=str)
    h = hashlib.sha1(blob.encode()).hexdigest()[:12]
    p = REPLAYS / f"{pid}-{h}.json"
    p.write_text(json.dumps(payload, indent=1, default=str) + "\n")
    return p


def tier() -> str:
    t = os.environ.get("VERIF_TIER", "quick")
    return t if t in ("quick", "thorough") else "quick"

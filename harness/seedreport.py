#!/venv/bin/python
"""Writes seeded/README.md: independently seeded changes (sub-agents) and the mutant catalogue, with which checks caught what."""
import glob
import json
import os

ROOT = os.path.join(os.path.dirname(os.path.abspath(__file__)), "..", "seeded")
lines = ["# Changes used to validate the machinery", "",
         "## Independently seeded changes (written by sub-agents that saw only the property text)", "",
         "Each directory holds `patch.diff`, the agent's `demo.py` (passes on the unchanged tree, fails with the change), `meta.json`.",
         "Every change keeps the repository's 54 tests passing.", "",
         "| change | property | needs, to manifest | caught by (quick tier) |", "|---|---|---|---|"]
for p in sorted(glob.glob(os.path.join(ROOT, "*", "meta.json"))):
    m = json.load(open(p))
    first = m.get("checks_at_first_confrontation") or m.get("checks") or {}
    caught = ", ".join(m.get("caught_by", [])) or "**missed**"
    if "after_strengthening" in m:
        caught += " (after strengthening; first confrontation: " + (", ".join(k for k, v in first.items() if v["exit"] == 1) or "missed by all") + ")"
    needs = (m.get("needs_to_manifest") or "").replace("\n", " ").replace("|", "/")
    lines.append(f"| `{m['name']}` | {m['property']} | {needs[:400]} | {caught} |")
mp = os.path.join(ROOT, "mutants_last_run.json")
if os.path.exists(mp):
    res = json.load(open(mp))
    lines += ["", f"## Mutant catalogue (`harness/mutants.py`, {len(res)} mutants; last `selftest.py all`)", "",
              "| mutant | slip | must be caught by | exit codes | repository tests |", "|---|---|---|---|---|"]
    for r in res:
        t = r["repository_tests"][1] if r["repository_tests"] else "not run"
        lines.append(f"| `{r['mutant']}` | {r['why']} | {', '.join(r['breaks'])} | {r['check_exit']} {'**MISSED**' if r['missed'] else ''} | {t} |")
open(os.path.join(ROOT, "README.md"), "w").write("\n".join(lines) + "\n")
print("seeded/README.md written")

"""Session.tla (construction x lifecycle on arbitrary graphs): TLC explores every interleaving of construction calls,
validation, whole / partial / per-element steps and compilations up to a depth from the empty network and from a few
seed networks, asserts the readiness theorems on every transition, and every transition that ends in a lifecycle call
is replayed into the real library (C19: RuntimeError iff unready, no free symbols, reflects the present network;
C07: a valid network steps and compiles; C06: the verdict in every session state)."""
from __future__ import annotations

import json
import multiprocessing as mp

import dynpipe
from common import prune_cache as common_prune
from common import CACHE, MachineryError, NCPU, WORK, printed, run_tlc, spec_hash, tlc_error_excerpt

CFG = open(__file__.replace("harness/sesscheck.py", "tla/MC_Session.cfg")).read()
DEPTH = {"quick": dict(sess=3, hist=4), "thorough": dict(sess=4, hist=5)}


def transitions(profile: str, depth: int):
    key = spec_hash("NetBuild.tla", "Session.tla", "MC_Session.tla") + f"-{profile}-{depth}"
    CACHE.mkdir(exist_ok=True)
    p, meta = CACHE / f"sess-{key}.ndjson", CACHE / f"sess-{key}.meta.json"
    common_prune("sess", key)
    if p.exists() and meta.exists():
        return [json.loads(l) for l in p.open()], json.loads(meta.read_text())
    d = WORK / "cfg"
    d.mkdir(parents=True, exist_ok=True)
    cfg = d / f"MC_Session-{key}.cfg"
    cfg.write_text(CFG.replace("MaxDepth = 2", f"MaxDepth = {depth}").replace('Profile = "sess"', f'Profile = "{profile}"')
                   .replace("EmitOn = FALSE", "EmitOn = TRUE"))
    res = run_tlc("MC_Session.tla", cfg=str(cfg), workers=1, heap="6g", timeout=3 * 3600, tag=key)
    if res["rc"] != 0:
        raise MachineryError("MC_Session: the specification violates one of its properties or failed:\n" + tlc_error_excerpt(res["out"], 40))
    tr = printed(res["out"], "TRANS")
    if not tr:
        raise MachineryError("MC_Session printed no transition")
    p.write_text("".join(json.dumps(t) + "\n" for t in tr))
    info = {"states": res["states"], "transitions": res["generated"], "emitted": len(tr), "profile": profile, "depth": depth}
    meta.write_text(json.dumps(info))
    return tr, info


def _chunk(chunk):
    import sessrun
    return [sessrun.replay_transition(t) for t in chunk]


def run(pid: str, tier: str) -> dict:
    key = {"C19": "c19", "C07": "c07", "C06": "c06"}[pid]
    trans, states, ntrans = [], 0, 0
    for profile, depth in DEPTH[tier].items():
        tr, info = transitions(profile, depth)
        trans += tr
        states += info["states"]
        ntrans += info["transitions"]
    for t in trans:   # ToJson prints empty functions / sets as []
        for k in ("vars", "nxt"):
            if isinstance(t[k], list):
                t[k] = {}
    n = min(NCPU, max(1, len(trans) // 50))
    chunks = [c for c in (trans[i::n * 4] for i in range(n * 4)) if c]
    ctx = mp.get_context("spawn")
    with ctx.Pool(n) as pool:
        res = pool.map(_chunk, chunks)
    findings = [None] * len(trans)
    for ci, r in enumerate(res):
        for j, f in enumerate(r):
            findings[ci + j * len(chunks)] = f
    viol, drift, dyn = [], [], []
    for t, f in zip(trans, findings):
        for item in f[key]:
            viol.append({"signature": f"{pid}|session|{item[0][:60]}|{json.dumps(t['h'][-1])}",
                         "summary": f"{item[0]} after session {json.dumps(t['h'])}",
                         "payload": {"kind": "session", "transition": t, "finding": item}})
        for item in f["drift"][:1]:
            drift.append(f"{item[0]} after {json.dumps(t['h'])}")
        if f["dyn"] is not None and pid in ("C19", "C07"):
            dyn.append((t, f["dyn"]))
    nval = 0
    if dyn:
        seen, uniq = set(), []
        for t, r in dyn:
            if r["id"] not in seen:
                seen.add(r["id"])
                uniq.append((t, r))
        verdicts = dynpipe.validate([r for _, r in uniq], tag="sess")
        nval = len(uniq)
        for (t, r), v in zip(uniq, verdicts):
            bad = [x for x in v["fails"] if x[0] in ("fn.out", "fn.free", "fn.ok", "fn.name_in", "fn.name_out", "fn.size_in", "fn.size_out", "fn.finite")]
            if bad:
                viol.append({"signature": f"{pid}|session|function does not reflect the present network|{json.dumps(t['h'][-2:])}",
                             "summary": f"the function compiled at the end of session {json.dumps(t['h'])} differs from the specification's step of the network built: {json.dumps(bad[:3])}",
                             "payload": {"kind": "session", "transition": t, "finding": bad[:10]}})
    import sesstrace
    b = sesstrace.run(pid, tier)
    viol += b["violations"]
    states += b["states"]
    cov = {"states": max(1, states), "transitions": max(1, ntrans), "traces_validated_against_impl": len(trans) + nval + b["traces"] + b["numeric"],
           "recorded_sessions": b["traces"], "recorded_session_calls": b["calls"], "recorded_session_calls_judged": b["judged"],
           "recorded_session_functions_validated_numerically": b["numeric"],
           "samples": [{"session": t["h"], "expected_result": t["res"]} for t in (trans[:1] + trans[len(trans) // 2:len(trans) // 2 + 1] + trans[-1:])],
           "exhaustive": True, "session_depths": DEPTH[tier], "session_transitions_replayed": len(trans),
           "session_functions_validated_numerically": nval,
           "explanation": "Session.tla: every interleaving of construction calls, validation, whole / half-way / per-element steps and "
                          f"compilations up to {DEPTH[tier]['sess']} calls beyond six seed networks (3 nodes, 3 links, 3 origins, 2 destinations), readiness theorems "
                          "asserted on every transition; every transition ending in a lifecycle call replayed into the real library."}
    return {"violations": viol, "coverage": cov, "level": "model_checking", "drift": sorted(set(drift))[:10],
            "assumptions": ["TLC; the replay harness sessrun.py (outcome classes, presence of variables / next states)"],
            "headline": f"{len(trans)} session transitions replayed, {nval} session functions validated numerically, "
                        f"{b['traces']} recorded sessions ({b['judged']}/{b['calls']} calls judged, {b['numeric']} functions) validated, {len(viol)} findings"}

"""Writes MANIFEST.json from the registry (one source of truth for commands)."""
import json, os, sys
sys.path.insert(0, os.path.dirname(os.path.abspath(__file__)))
import manifest_data as md

checks = []
for pid, c in sorted(md.CHECKS.items()):
    checks.append({
        "property_id": pid,
        "quick_cmd": f"/venv/bin/python harness/check.py {pid} --tier quick",
        "thorough_cmd": f"/venv/bin/python harness/check.py {pid} --tier thorough",
        "evidence_file": f"/verif/evidence/{pid}.json",
        "replay_cmd_template": "/venv/bin/python harness/check.py --replay {path}",
        "engine": c["engine"],
        "level_claimed": {"category": "model_checking", "text": c["text"], "design_ref": c["design_ref"]},
        "level_note": c["note"],
        "technique": c["technique"],
    })
m = {
    "version": 1,
    "setup_cmd": "./build.sh",
    "hooks": {"guard": "SYM_METANET_VERIF", "enable": "none needed: every observation point is public API; checks import /repo/src directly (VERIF_REPO overrides the path)",
              "baseline_off_cmd": "cd /repo && /venv/bin/python -m pytest -ra -q -p no:cacheprovider --timeout=900 --continue-on-collection-errors",
              "source_commits": [], "add_only": True},
    "engines": md.ENGINES,
    "checks": checks,
    "not_applicable": [{"property_id": p, "reason": r} for p, r in sorted(md.NOT_APPLICABLE.items())],
    "notes": md.NOTES,
}
open(os.path.join(os.path.dirname(__file__), "..", "MANIFEST.json"), "w").write(json.dumps(m, indent=1) + "\n")
print("MANIFEST.json:", len(checks), "checks,", len(m["not_applicable"]), "not applicable")

"""Catalogue of single-site source mutations used to validate the machinery (selftest.py).
Each is a realistic slip anchored in a property's mechanism; `breaks` lists the properties whose
quick check must raise a VIOLATION; the pinned baseline tests must still pass with the mutant."""

N = "src/sym_metanet/blocks/nodes.py"
L = "src/sym_metanet/blocks/links.py"
O = "src/sym_metanet/blocks/origins.py"
D = "src/sym_metanet/blocks/destinations.py"
NW = "src/sym_metanet/network.py"
NP = "src/sym_metanet/engines/numpy.py"
CS = "src/sym_metanet/engines/casadi.py"
CORE = "src/sym_metanet/engines/core.py"
B = "src/sym_metanet/blocks/base.py"

MUTANTS = [
    # ---------------------------------------------------------------- node rules (C01, C02, C10, C14)
    dict(name="down_density_last_segments", breaks=["C01", "C10"], why="first -> last segment of leaving links (defect D4 re-introduced)",
         edits=[(N, '*(dlink.states["rho"][0] for _, _, dlink in links_down)', '*(dlink.states["rho"][-1] for _, _, dlink in links_down)')]),
    dict(name="no_split_single_entering", breaks=["C01", "C02"], why="turn-rate split skipped with one entering link (D3)",
         edits=[(N, "            if len(links_down) > 1:\n                betas", "            if len(links_down) > 99:\n                betas")]),
    dict(name="up_speed_first_segment", breaks=["C01", "C10"], why="upstream speed taken from the first segment of the entering link",
         edits=[(N, 'v = link_up.states["v"][-1]', 'v = link_up.states["v"][0]')]),
    dict(name="origin_flow_dropped_at_merge", breaks=["C01", "C02"], why="origin flow not added at a node with several entering links",
         edits=[(N, "q = engine.nodes.get_upstream_flow(q_last, link.turnrate, betas, q_o)", "q = engine.nodes.get_upstream_flow(q_last, link.turnrate, betas, None)")]),
    dict(name="single_leaving_last_rho", breaks=["C01", "C10"], why="downstream density of a chain takes the last segment of the next link",
         edits=[(N, 'return first(links_down)[-1].states["rho"][0]', 'return first(links_down)[-1].states["rho"][-1]')]),
    # ---------------------------------------------------------------- links
    dict(name="lane_drop_sign", breaks=["C01"], why="lane difference with the wrong sign",
         edits=[(L, "lanes_drop = self.lam - link_down.lam", "lanes_drop = link_down.lam - self.lam")]),
    dict(name="merging_without_entering_check", breaks=["C01"], why="merging term applied at pure origin nodes too",
         edits=[(L, "            and any(net.in_links(node_up))\n", "")]),
    dict(name="rho_down_shift", breaks=["C01"], why="downstream density vector not shifted (a MISSING dependency: C10 still holds)",
         edits=[(L, "rho_down = engine.vcat(rho[1:], rhoN_1)", "rho_down = engine.vcat(rho[:-1], rhoN_1)")]),
    dict(name="positive_next_flags_swapped", breaks=["C11"], why="positive_next_density clamps the speed",
         edits=[(L, "        if positive_next_density:\n            rho_next = engine.max(0, rho_next)\n        if positive_next_speed:\n            v_next = engine.max(0, v_next)",
                 "        if positive_next_density:\n            v_next = engine.max(0, v_next)\n        if positive_next_speed:\n            rho_next = engine.max(0, rho_next)")]),
    dict(name="positive_init_density_ignored", breaks=["C11"], why="positive_init_density has no effect",
         edits=[(L, "        if positive_init_density:\n            self.states[\"rho\"] = engine.max(0, self.states[\"rho\"])", "        if positive_init_density:\n            pass")]),
    # ---------------------------------------------------------------- origins / destinations
    dict(name="ramp_first_segment", breaks=["C01", "C10"], why="on-ramp reads the last segment density of its link",
         edits=[(O, '            link_down.states["rho"][0],\n            link_down.rho_crit,\n            T,\n            self.flow_eq_type,\n        )', '            link_down.states["rho"][-1],\n            link_down.rho_crit,\n            T,\n            self.flow_eq_type,\n        )')]),
    dict(name="queue_next_clamped_always", breaks=["C11"], why="next queue clamped even without the option",
         edits=[(O, "        if positive_next_queue:\n            w_next = engine.max(0, w_next)\n        return {\"w\": w_next}\n\n    def get_flow(  # type: ignore[override]\n        self,\n        net: \"Network\",\n        T: Union[VarType, float],\n        engine: Optional[EngineBase] = None,\n        **_,\n    ) -> VarType:\n        \"\"\"Computes the (upstream) flow induced by the metered ramp.",
                 "        w_next = engine.max(0, w_next)\n        return {\"w\": w_next}\n\n    def get_flow(  # type: ignore[override]\n        self,\n        net: \"Network\",\n        T: Union[VarType, float],\n        engine: Optional[EngineBase] = None,\n        **_,\n    ) -> VarType:\n        \"\"\"Computes the (upstream) flow induced by the metered ramp.")]),
    dict(name="congested_dest_uses_first_segment", breaks=["C01", "C10"], why="destination law reads the first segment",
         edits=[(D, 'link_up.states["rho"][-1], self.disturbances["d"], link_up.rho_crit', 'link_up.states["rho"][0], self.disturbances["d"], link_up.rho_crit')]),
    # ---------------------------------------------------------------- engines (formulas)
    dict(name="np_anticipation_kappa", breaks=["C01", "C03"], why="NumPy anticipation term divides by rho only",
         edits=[(NP, "anticipation = (eta * T / tau) * (rho_down - rho) / (L * (rho + kappa))", "anticipation = (eta * T / tau) * (rho_down - rho) / (L * (rho + 0.999 * kappa))")]),
    dict(name="cs_density_update_lanes", breaks=["C01", "C02", "C03"], why="CasADi density update forgets the lanes",
         edits=[(CS, "return rho + (T / lanes / L) * (q_up - q)", "return rho + (T / L) * (q_up - q)")]),
    dict(name="both_ramp_in_formula", breaks=["C01"], why="'in' ramp formula wrong in BOTH engines (invisible to engine-vs-engine tests)",
         edits=[(NP, "return np.minimum(term1, C * np.minimum(r, term3))", "return np.minimum(term1, C * r * np.minimum(1, term3))"),
                (CS, "return cs.fmin(term1, C * cs.fmin(r, term3))", "return cs.fmin(term1, C * r * cs.fmin(1, term3))")]),
    dict(name="cs_ratio_guard_low", breaks=["C01", "C03"], why="CasADi ratio guard at 0.5 instead of 0.05",
         edits=[(CS, "ratio = cs.fmax(0.05, cs.fmin(1.0, ratio))", "ratio = cs.fmax(0.5, cs.fmin(1.0, ratio))")]),
    dict(name="np_simplified_ignores_capacity", breaks=["C01", "C17"], why="NumPy limited simplified ramp ignores the space limit",
         edits=[(NP, "        term3 = C * np.minimum(\n            1, (rho_max - rho_first) / (rho_max - rho_crit)  # type: ignore[operator]\n        )", "        term3 = C * np.minimum(\n            1, (rho_max - 0 * rho_first) / (rho_max - rho_crit)  # type: ignore[operator]\n        )")]),
    dict(name="cs_mainstream_qcap", breaks=["C17", "C01"], why="CasADi mainstream flow not limited by capacity when fast",
         edits=[(CS, "q_lim = cs.if_else(v_lim < V_crit, q_speed, q_cap)", "q_lim = cs.if_else(v_lim < V_crit, q_speed, 1.2 * q_cap)")]),
    dict(name="upstream_flow_unnormalised", breaks=["C01", "C02", "C14"], why="turn rates not normalised by their sum (NumPy and CasADi)",
         edits=[(NP, "return (beta / np.sum(betas, 0)) * Q", "return beta * Q"), (CS, "return (beta / cs.sum1(betas)) * Q", "return beta * Q")]),
    dict(name="vsl_applies_to_all_segments", breaks=["C18", "C01"], why="speed limit of the first limited segment imposed on every segment",
         edits=[(NP, "Veq[vsl] = np.minimum(Veq[vsl], (1 + alpha) * v_ctrl)", "Veq[:] = np.minimum(Veq, (1 + alpha) * (v_ctrl[0] if len(v_ctrl) else np.inf))")]),
    dict(name="vsl_alpha_sign", breaks=["C01"], why="non-compliance factor subtracted: neutral limits stay neutral but finite ones bite harder (C18 'le' still holds) -> only C01",
         also=[], edits=[(CS, "Veq[vsl] = cs.fmin(Veq[vsl], (1 + alpha) * v_ctrl)", "Veq[vsl] = cs.fmin(Veq[vsl], (1 - alpha) * v_ctrl)")]),
    dict(name="ramp_out_rate_inside", breaks=["C01"], also=["C18"], why="'out' ramp: rate multiplies only the capacity term (coincides with the other variant at r = 1: C18 holds)",
         edits=[(NP, "return r * np.minimum(term1, C * np.minimum(1, term3))", "return np.minimum(term1, r * C * np.minimum(1, term3))"),
                (CS, "return r * cs.fmin(term1, C * cs.fmin(1, term3))", "return cs.fmin(term1, r * C * cs.fmin(1, term3))")]),
    dict(name="simplified_unbounded_not_like_metered", breaks=["C18", "C01"], why="limited simplified ramp halves the capacity term",
         edits=[(NP, "return np.minimum(qdes, np.minimum(term2, term3))", "return np.minimum(qdes, np.minimum(term2, 0.5 * term3))"),
                (CS, "return cs.fmin(qdes, cs.fmin(term2, term3))", "return cs.fmin(qdes, cs.fmin(term2, 0.5 * term3))")]),
    dict(name="dynamics_keyed_by_name", breaks=["C14"], why="a link finds its nodes through its NAME (breaks with equal names)",
         edits=[(L, "node_up, node_down = net.nodes_by_link[self]", "node_up, node_down = net.nodes_by_link[net.links_by_name[self.name]]")]),
    dict(name="turnrate_order_dependent", breaks=["C14", "C01", "C02"], why="share computed against the first leaving link's rate only",
         edits=[(N, "            betas = engine.vcat(*(dlink.turnrate for _, _, dlink in links_down))\n\n            v = engine.nodes.get_upstream_speed", "            betas = engine.vcat(*(first(links_down)[-1].turnrate * len(links_down) for _, _, dlink in links_down))\n\n            v = engine.nodes.get_upstream_speed")]),
    # ---------------------------------------------------------------- to_function
    dict(name="outputs_level1_reversed", breaks=["C04"], why="level-1 outputs listed in reverse name order (by name still the same values: C03 holds)",
         edits=[(CS, "        names_out = list(next_states.keys())\n        args_out = list(next_states.values())", "        names_out = list(next_states.keys())[::-1]\n        args_out = list(next_states.values())[::-1]")]),
    dict(name="level2_u_d_swapped", breaks=["C04"], why="level-2 u and d vectors swapped",
         edits=[(CS, '        names_in = ["x", "u", "d"]\n        args_in = [\n            cs.vcat(states.values()),\n            cs.vcat(actions.values()),\n            cs.vcat(disturbances.values()),\n        ]', '        names_in = ["x", "u", "d"]\n        args_in = [\n            cs.vcat(states.values()),\n            cs.vcat(disturbances.values()),\n            cs.vcat(actions.values()),\n        ]')]),
    dict(name="params_reversed_when_stacked", breaks=["C16", "C04"], why="stacked parameter vector p in reverse declared order",
         edits=[(CS, '        args_in.append(cs.vcat(parameters.values()))', '        args_in.append(cs.vcat(list(parameters.values())[::-1]))')]),
    dict(name="flows_link_times_two_level2", breaks=["C05"], why="level-2 flow output stacks origin flows first",
         edits=[(CS, "flows_link = [cs.vertcat(flows_link[0], flows_origins[0])]", "flows_link = [cs.vertcat(flows_origins[0], flows_link[0])]")]),
    dict(name="flow_output_without_params", breaks=["C16", "C05"], why="origin flows recomputed without the declared parameters (T symbolic lost)",
         edits=[(CS, "origin.get_flow(net, engine=engine, **parameters, **other_parameters)", "origin.get_flow(net, engine=engine, **{**parameters, **other_parameters, 'T': other_parameters.get('T', 1.0) if 'T' not in parameters else 1.0})")]),
]

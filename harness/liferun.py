"""Replay of Lifecycle.tla transitions into the real library (C12, C13, C19): engine selection,
per-element and whole-network initialisation / stepping, late additions, compilation.
Observations are outcome classes and types; numeric values of compiled functions are
recorded as dynamics records and validated by TLC (Trace_Dyn.tla)."""
from __future__ import annotations

import copy
import os
import sys

REPO = os.environ.get("VERIF_REPO", "/repo")
sys.path.insert(0, os.path.join(REPO, "src"))

import casadi as cs  # noqa: E402
import numpy as np  # noqa: E402

from common import fr  # noqa: E402

np.seterr(all="ignore")
import warnings  # noqa: E402
warnings.simplefilter("ignore")

PARS = {"P1": dict(T=1 / 360, tau=1 / 200, eta=60.0, kappa=40.0, delta=0.0122),
        "P2": dict(T=1 / 720, tau=1 / 150, eta=45.0, kappa=35.0, delta=0.02)}
OPTS = {"O0": {}, "O1": dict(positive_init_speed=True, positive_next_queue=True)}
OPT_FLAGS = {"O0": dict(pis=False, pid=False, piq=False, pns=False, pnd=False, pnq=False),
             "O1": dict(pis=True, pid=False, piq=False, pns=False, pnd=False, pnq=True)}
LINKP = {"L1": dict(N=2, lam=3, L=1.0, rho_max=180.0, rho_crit=33.5, v_free=102.0, a=1.867, beta=1.0, ctl=False, vsl=[], alpha=0.0),
         "L2": dict(N=2, lam=2, L=0.75, rho_max=170.0, rho_crit=30.0, v_free=110.0, a=2.0, beta=1.0, ctl=True, vsl=[1], alpha=0.1),
         "L3": dict(N=1, lam=4, L=1.25, rho_max=190.0, rho_crit=36.25, v_free=95.0, a=1.5, beta=2.0, ctl=False, vsl=[], alpha=0.0)}
VALS = {
    "V1": {"L1": {"rho": [22.0, 25.5], "v": [80.0, 78.25]}, "L3": {"rho": [31.0], "v": [66.5]},
           "L2": {"rho": [30.0, 28.0], "v": [70.0, 75.0], "v_ctrl": [60.0]},
           "O1": {"w": [12.0], "v_ctrl": [90.0], "d": [2500.0]}, "R1": {"w": [30.0], "r": [0.6], "d": [700.0]},
           "R2": {"w": [4.0], "q": [650.0], "d": [800.0]}, "D1": {"d": [20.0]}},
    "V2": {"L1": {"rho": [60.0, -3.0], "v": [-5.0, 40.0]}, "L3": {"rho": [44.0], "v": [-12.5]},
           "L2": {"rho": [75.0, 90.0], "v": [35.0, 20.0], "v_ctrl": [45.0]},
           "O1": {"w": [-2.0], "v_ctrl": [50.0], "d": [3500.0]}, "R1": {"w": [0.0], "r": [1.0], "d": [1200.0]},
           "R2": {"w": [55.0], "q": [300.0], "d": [100.0]}, "D1": {"d": [65.0]}},
}


class SpyEngine:
    """placeholder, replaced below once sym_metanet is importable"""


def make_spy(inner):
    from sym_metanet.engines.core import EngineBase

    class _Proxy:
        def __init__(self, target, log, what):
            self._t, self._log, self._what = target, log, what

        def __getattr__(self, name):
            self._log.append(f"{self._what}.{name}")
            return getattr(self._t, name)

    class Spy(EngineBase):
        def __init__(self, inner_):
            self.inner, self.log = inner_, []

        @property
        def nodes(self):
            return _Proxy(self.inner.nodes, self.log, "nodes")

        @property
        def links(self):
            return _Proxy(self.inner.links, self.log, "links")

        @property
        def origins(self):
            return _Proxy(self.inner.origins, self.log, "origins")

        @property
        def destinations(self):
            return _Proxy(self.inner.destinations, self.log, "destinations")

        def var(self, *a, **k):
            self.log.append("var")
            return self.inner.var(*a, **k)

        def vcat(self, *a):
            self.log.append("vcat")
            return self.inner.vcat(*a)

        def max(self, a, b):
            self.log.append("max")
            return self.inner.max(a, b)

        def to_function(self, *a, **k):
            self.log.append("to_function")
            return self.inner.to_function(*a, **k)

    return Spy(inner)


def kind_of_value(v):
    if v is None:
        return ""
    if isinstance(v, cs.SX):
        return "sx"
    if isinstance(v, cs.MX):
        return "mx"
    if isinstance(v, (np.ndarray, np.generic, float, int)):
        return "np"
    return "?" + type(v).__name__


class World:
    def __init__(self, same_names=False, recycle=False):
        self.recycle, self.recycled = recycle, 0
        import sym_metanet as sm
        from sym_metanet import engines
        from sym_metanet.engines.casadi import Engine as CE
        from sym_metanet.engines.numpy import Engine as NE
        self.sm, self.engines, self.CE, self.NE = sm, engines, CE, NE
        lk = lambda i: (LINKP[i]["N"], LINKP[i]["lam"], LINKP[i]["L"], LINKP[i]["rho_max"], LINKP[i]["rho_crit"],  # noqa: E731
                        LINKP[i]["v_free"], LINKP[i]["a"])
        # names are labels, not identifiers: with same_names every element of a kind carries the same one
        nm = (lambda i: {"L": "link", "O": "origin", "R": "origin", "D": "destination"}[i[0]]) if same_names else (lambda i: i)
        self.el = {
            "L1": sm.Link(*lk("L1"), turnrate=1.0, name=nm("L1")),
            "L2": sm.LinkWithVsl(*lk("L2"), turnrate=1.0, name=nm("L2"), segments_with_vsl={0}, alpha=0.1),
            "L3": sm.Link(*lk("L3"), turnrate=2.0, name=nm("L3")),
            "O1": sm.MainstreamOrigin(name=nm("O1")), "R1": sm.MeteredOnRamp(2000.0, "out", name=nm("R1")),
            "R2": sm.SimplifiedMeteredOnRamp(1500.0, "limited", name=nm("R2")), "D0": sm.Destination(name=nm("D0")),
            "D1": sm.CongestedDestination(name=nm("D1")),
        }
        self.nodes = [sm.Node(name=f"N{i}") for i in (1, 2, 3)]
        n1, n2, n3 = self.nodes
        self.net = sm.Network(name="life")
        self.net.add_path([n1, self.el["L1"], n2, self.el["L2"], n3], origin=self.el["O1"], destination=self.el["D0"])
        self.net.add_origin(self.el["R1"], n2)
        self.la, self.r, self.dst = "L1", "R1", "D0"
        self.explicit = {"np": NE("rand"), "sx": CE("SX"), "mx": CE("MX")}
        self.default = engines.use("casadi")
        self.insts = {"default": self.default}
        self.held = []           # caller-owned objects: (description, live object, pristine copy)
        self.param_snapshot = self.params()
        self.repeat = []         # (la, r, vals, par, opts, next_states) of NumPy steps from caller values
        self.F = None

    # ------------------------------------------------------------------ helpers
    def params(self):
        out = {}
        for i, e in self.el.items():
            for a in ("N", "lam", "L", "rho_max", "rho_crit", "v_free", "a", "turnrate", "C", "alpha", "vsl", "flow_eq_type", "name"):
                if hasattr(e, a):
                    out[(i, a)] = copy.deepcopy(getattr(e, a))
        return out

    def innet(self):
        return [self.la, "L2", "O1", self.r, self.dst]

    def engine(self, k):
        return None if k == "" else self.explicit[k]

    def cur_kind(self):
        e = self.engines.get_current_engine()
        inner = getattr(e, "inner", e)
        if isinstance(inner, self.NE):
            return "np"
        if isinstance(inner, self.CE):
            return "sx" if inner.sym_type is cs.SX else "mx"
        return "?"

    def caller_values(self, vals, k):
        """init_conditions owned by the caller: NumPy arrays, or CasADi symbols created by the caller"""
        ic = {}
        for i in self.innet():
            d = {}
            for var, v in VALS[vals].get(i, {}).items():
                if k == "np":
                    d[var] = np.array(v, float)
                else:
                    d[var] = (cs.SX if k == "sx" else cs.MX).sym(f"{var}_{i}_caller", len(v), 1)
            ic[self.el[i]] = d
        for el_, d in ic.items():
            for var, obj in d.items():
                self.held.append((f"{el_.name}.{var}", obj, obj.copy() if isinstance(obj, np.ndarray) else type(obj)(obj), d, var))
        self.held.append(("init_conditions dict", ic, dict(ic), None, None))
        return ic

    def heap_changes(self):
        bad = []
        for desc, live, pristine, owner, key in self.held:
            if isinstance(live, np.ndarray):
                if live.shape != pristine.shape or not np.array_equal(live, pristine, equal_nan=True):
                    bad.append(f"array {desc} modified")
            elif isinstance(live, dict):
                if list(live.keys()) != list(pristine.keys()) or any(live[k_] is not pristine[k_] for k_ in live):
                    bad.append(f"{desc} modified")
            else:
                same = live.shape == pristine.shape and (cs.is_equal(live, pristine, 0) if isinstance(live, cs.MX)
                                                        else all(cs.is_equal(live[i], pristine[i], 0) for i in range(live.shape[0])))
                if not same:
                    bad.append(f"symbol {desc} modified")
            if owner is not None and owner.get(key) is not live:
                bad.append(f"entry {desc} of the supplied dictionary rebound")
        now = self.params()
        for k_, v in self.param_snapshot.items():
            if k_ not in now or repr(now[k_]) != repr(v):
                bad.append(f"parameter {k_} changed")
        return bad

    def next_np(self):
        out = {}
        for i in self.innet():
            e = self.el[i]
            if e.next_states:
                for var, v in e.next_states.items():
                    out[(i, var)] = np.array(v, float).copy()
        return out

    # ------------------------------------------------------------------ calls
    def call(self, c):
        op = c[0]
        sel = self.engines.get_current_engine()
        if hasattr(sel, "log"):
            sel.log.clear()
        try:
            if op == "use":
                e = self.engines.use(c[1])
                return ("engine", e)
            if op == "use_inst":
                if c[1] not in self.insts:
                    inner = {"np": self.NE("rand"), "sx": self.CE("SX"), "mx": self.CE("MX")}[c[2]]
                    self.insts[c[1]] = make_spy(inner) if c[1].startswith("spy_") else inner
                e = self.engines.use(self.insts[c[1]])
                return ("engine", e)
            if op == "net_step":
                k = c[1] or self.cur_kind()
                ic = self.caller_values(c[4], k) if c[4] else None
                self.net.step(init_conditions=ic, engine=self.engine(c[1]), **OPTS[c[3]], **PARS[c[2]])
                if c[4] and k == "np":
                    self.repeat.append((self.la, self.r, c[4], c[2], c[3], self.next_np(), self.dst))
                return ("ok", None)
            if op == "net_step_fail":
                self.net.step(engine=self.engine(c[1]), **OPTS["O0"])    # no sampling time, no model parameters
                return ("ok", None)
            if op == "init":
                self.el[c[1]].init_vars(engine=self.engine(c[2]))
                return ("ok", None)
            if op == "init_all":
                for el_ in list(self.net.elements):
                    el_.init_vars(engine=self.engine(c[1]))
                return ("ok", None)
            if op == "step":
                self.el[c[1]].step(net=self.net, engine=self.engine(c[2]), **OPTS[c[4]], **PARS[c[3]])
                return ("ok", None)
            if op == "add_later":
                if c[1] == "R2":
                    self.net.add_origin(self.el["R2"], self.nodes[1])
                    self.r = "R2"
                elif c[1] == "D1":
                    if self.recycle and "D0" in self.el:
                        # the caller drops the free destination first (a stand-in takes its place), forgets it, and only
                        # then creates the congested one: CPython hands the dead object's address to a new one
                        import gc
                        stand_in = self.sm.Destination(name=self.el["D0"].name)
                        self.net.add_destination(stand_in, self.nodes[2])
                        dead, nm_ = id(self.el["D0"]), self.el["D1"].name
                        del self.el["D0"], self.el["D1"]
                        gc.collect()
                        keep = []
                        for _ in range(300):
                            cand = self.sm.CongestedDestination(name=nm_)
                            if id(cand) == dead:
                                self.recycled += 1
                                break
                            keep.append(cand)
                        self.el["D1"] = cand
                        del keep
                        self.param_snapshot = {k_: v_ for k_, v_ in self.param_snapshot.items() if k_[0] != "D0"}
                    self.net.add_destination(self.el["D1"], self.nodes[2])
                    self.dst = "D1"
                else:
                    self.net.add_link(self.nodes[0], self.el["L3"], self.nodes[1])
                    self.la = "L3"
                return ("ok", None)
            if op == "compile":
                self.F = self.explicit[c[1]].to_function(self.net, compact=0, more_out=False)
                return ("function", self.F)
            raise KeyError(op)
        except KeyError:
            raise
        except BaseException as e:  # noqa: BLE001
            return ("error", e)

    def observe(self):
        o = {"cur_kind": self.cur_kind(), "vars": {}, "nxt": {}, "maps": {}}
        ido = {id(e): i for i, e in self.el.items()}
        for m in ("states", "next_states", "actions", "disturbances"):
            try:
                d = getattr(self.net, m)
                o["maps"][m] = [ido.get(id(e), "?") for e in d]
                if any(v is not getattr(e, m) for e, v in d.items()):
                    o["maps"][m].append("(not the element's own dictionary)")
            except BaseException as e:  # noqa: BLE001
                o["maps"][m] = ["error", type(e).__name__]
        for i in self.innet():
            e = self.el[i]
            groups = [g for g in (e.states, e.actions, e.disturbances) if g]
            kinds = sorted({kind_of_value(v) for g in groups for v in g.values()})
            o["vars"][i] = kinds[0] if len(kinds) == 1 else ("" if not kinds else "+".join(kinds))
            if i not in ("D0", "D1"):
                ks = sorted({kind_of_value(v) for v in (e.next_states or {}).values()})
                o["nxt"][i] = ks[0] if len(ks) == 1 else ("" if not ks else "+".join(ks))
        return o


def fresh_np_step(la, r, vals, par, opts, dst="D0"):
    """the same values stepped on a freshly built network (C12: repeatability oracle)"""
    w = World()
    if la == "L3":
        w.call(["add_later", "L3"])
    if r == "R2":
        w.call(["add_later", "R2"])
    if dst == "D1":
        w.call(["add_later", "D1"])
    ic = {w.el[i]: {var: np.array(v, float) for var, v in VALS[vals].get(i, {}).items()} for i in w.innet()}
    w.net.step(init_conditions=ic, engine=w.NE(), **OPTS[opts], **PARS[par])
    return w.next_np()


def dyn_record(w: World, t: dict, sym: str):
    """a dynamics record (format of Trace_Dyn) for the function compiled at the end of history t: evaluated by argument name"""
    par, opts, _ = t["lastpar"]
    P = PARS[par]
    links = {}
    ends = {w.la: ("N1", "N2"), "L2": ("N2", "N3")}
    for i in (w.la, "L2"):
        p = LINKP[i]
        links[i] = dict(up=ends[i][0], down=ends[i][1], N=p["N"], lam=fr(p["lam"]), L=fr(p["L"]), rho_max=fr(p["rho_max"]),
                        rho_crit=fr(p["rho_crit"]), v_free=fr(p["v_free"]), a=fr(p["a"]), beta=fr(p["beta"]), ctl=p["ctl"],
                        vsl=p["vsl"], alpha=fr(p["alpha"]))
    okind = {"R1": ("ramp_out", 2000.0), "R2": ("simp_limited", 1500.0)}[w.r]
    net = {"links": links, "origins": {"O1": dict(node="N1", kind="mainstream", C=fr(0.0)),
                                       w.r: dict(node="N2", kind=okind[0], C=fr(okind[1]))},
           "dests": {w.dst: dict(node="N3", kind="congested" if w.dst == "D1" else "free")}}
    V = VALS["V1"]
    uname = {"R1": "r", "R2": "q"}[w.r]
    x = {"rho": {i: [fr(z) for z in V[i]["rho"]] for i in links}, "v": {i: [fr(z) for z in V[i]["v"]] for i in links},
         "w": {"O1": fr(V["O1"]["w"][0]), w.r: fr(V[w.r]["w"][0])}}
    u = {"vctrl": {"L2": [fr(z) for z in V["L2"]["v_ctrl"]]}, "o": {"O1": fr(V["O1"]["v_ctrl"][0]), w.r: fr(V[w.r][uname][0])}}
    d = {"o": {"O1": fr(V["O1"]["d"][0]), w.r: fr(V[w.r]["d"][0])}, "dest": ({"D1": fr(V["D1"]["d"][0])} if w.dst == "D1" else {})}
    byname = {}
    for i in links:
        byname[f"rho_{i}"], byname[f"v_{i}"] = V[i]["rho"], V[i]["v"]
    byname["v_ctrl_L2"] = V["L2"]["v_ctrl"]
    byname["w_O1"], byname["v_ctrl_O1"], byname["d_O1"] = V["O1"]["w"], V["O1"]["v_ctrl"], V["O1"]["d"]
    byname[f"w_{w.r}"], byname[f"{uname}_{w.r}"], byname[f"d_{w.r}"] = V[w.r]["w"], V[w.r][uname], V[w.r]["d"]
    if w.dst == "D1":
        byname["d_D1"] = V["D1"]["d"]
    F = w.F
    fn = {"sym": sym.upper(), "compact": 0, "more_out": False, "params": [], "ok": False, "err": "", "free": 0, "check_names": True, "pre": "none",
          "name_in": list(F.name_in()), "name_out": list(F.name_out()),
          "size_in": [int(F.size1_in(i) * F.size2_in(i)) for i in range(F.n_in())],
          "size_out": [int(F.size1_out(i) * F.size2_out(i)) for i in range(F.n_out())], "calls": []}
    try:
        fn["free"] = len(F.get_free())
        if all(n in byname for n in fn["name_in"]):
            args = [list(map(float, byname[n])) for n in fn["name_in"]]
            outs = F(*[cs.DM(a) for a in args])
            outs = outs if isinstance(outs, (list, tuple)) else [outs]
            fn["calls"].append({"byname": False, "args": [[fr(z) for z in a] for a in args],
                                "outs": [[fr(z) for z in np.asarray(o, float).reshape(-1)] for o in outs]})
        fn["ok"] = True
    except BaseException as e:  # noqa: BLE001
        fn["err"] = f"{type(e).__name__}: {str(e)[:150]}"
    return {"id": "life-" + "-".join("_".join(map(str, c)) for c in t["h"]), "src": "lifecycle", "net": net,
            "par": dict(T=fr(P["T"]), tau=fr(P["tau"]), eta=fr(P["eta"]), kappa=fr(P["kappa"]), delta=fr(P["delta"]), phi=fr(0.0),
                        hasDelta=True, hasPhi=False),
            "opts": OPT_FLAGS[opts], "x": x, "u": u, "d": d, "rel": {"kind": "none", "has_base": False}, "twin": {"expect": "none"},
            "obs": {"valid": True, "nmsgs": 0, "valid_err": "", "elements": [el.name for el in w.net.elements], "elements_ok": True,
                    "np": {"has": False}, "np_plain": {"has": False}, "steps": [], "fn": [fn], "jac": [], "sens": [],
                    "twin": {"has": False}, "spy": []}}


def eval_by_name(w: World, F):
    """the function evaluated at the values V1, arguments found by their names <variable>_<element>; None if a name is unknown"""
    V = VALS["V1"]
    args = []
    for n in F.name_in():
        var, _, el_ = n.rpartition("_")
        if el_ not in V or var not in V[el_]:
            return None
        args.append(cs.DM(list(map(float, V[el_][var]))))
    outs = F(*args)
    outs = outs if isinstance(outs, (list, tuple)) else [outs]
    return [(nm, np.asarray(o, float).reshape(-1)) for nm, o in zip(F.name_out(), outs)]


def replay_transition(t: dict, same_names: bool = False, recycle: bool = False) -> dict:
    out = {"c12": [], "c13": [], "c19": [], "crash": [], "drift": [], "dyn": None}
    w = World(same_names, recycle)
    last = None
    hist = t["h"]
    for idx, c in enumerate(hist):
        cur_before = w.engines.get_current_engine()
        sel = cur_before
        last = w.call(c)
        # ---- C12 after every call: nothing the caller owns has changed
        bad = w.heap_changes()
        if bad:
            out["c12"].append([f"after call {idx + 1} {c}", bad[:4]])
        # ---- C13 on every call: explicit engines are honoured, the selection only changes through use()
        cur_after = w.engines.get_current_engine()
        if c[0] not in ("use", "use_inst") and cur_after is not cur_before:
            out["c13"].append(["the selected engine changed without use()", c])
        if c[0] in ("net_step", "init", "step", "init_all", "net_step_fail") and c[1 if c[0] in ("net_step", "init_all", "net_step_fail") else 2] != "" and hasattr(sel, "log") and sel.log:
            if last[0] != "error" or c[0] == "net_step_fail":
                out["c13"].append(["an explicit engine was passed but the selected engine computed", c, sorted(set(sel.log))[:5]])
    c = hist[-1]
    exp = t["res"]
    obs = w.observe()
    # ---- outcome class of the last call
    if exp[0] == "error":
        if last[0] != "error":
            if c[0] == "use":
                out["c13"].append(["unknown engine name accepted", c])
            elif c[0] == "compile":
                out["c19"].append(["an unready network was compiled (model: " + str(t.get("why", "")) + ")", c])
            else:
                out["drift"].append(["call expected to raise did not", c])
        else:
            name = type(last[1]).__name__
            if exp[1] == "EngineNotFoundError" and name != "EngineNotFoundError":
                out["c13"].append(["unknown engine name raised the wrong error", name])
            if exp[1] == "RuntimeError" and not isinstance(last[1], RuntimeError):
                out["c19"].append(["compiling an unready network raised " + name + " instead of a runtime error", c])
    elif last[0] == "error":
        whole = all(x[0] in ("use", "use_inst", "net_step", "compile") for x in hist)
        if c[0] == "compile" and not whole:
            # a fully initialised and stepped network that does not compile after per-element calls: outside the listed
            # properties (C19 only says when compiling MUST fail; C07 covers networks stepped as a whole)
            out["drift"].append([f"compile raised {type(last[1]).__name__} on a network the model calls ready", c])
        else:
            out["crash"].append([f"call raised {type(last[1]).__name__}: {str(last[1])[:120]}", c])
    # ---- C13: selection semantics and kinds
    if c[0] == "use" and exp[0] == "engine" and last[0] == "engine":
        if last[1] is not w.engines.get_current_engine() or obs["cur_kind"] != exp[1]:
            out["c13"].append(["use(name) did not select a new engine of that class", c, obs["cur_kind"]])
    if c[0] == "use_inst" and last[0] == "engine":
        if w.engines.get_current_engine() is not w.insts[c[1]] or last[1] is not w.insts[c[1]]:
            out["c13"].append(["use(instance) did not select that instance", c])
    if obs["cur_kind"] != t["cur"]["kind"]:
        out["c13"].append(["kind of the selected engine differs", obs["cur_kind"], t["cur"]])
    if last[0] != "error" or exp[0] == "error":
        for i, k in t["vars"].items():
            if obs["vars"].get(i) != k and exp[0] != "error":
                out["c13"].append(["variables of " + i + " have kind " + str(obs["vars"].get(i)) + ", expected " + k, c])
        for i, k in t["nxt"].items():
            if k and obs["nxt"].get(i) != k and exp[0] != "error":
                out["c13"].append(["next states of " + i + " have kind " + str(obs["nxt"].get(i)) + ", expected " + k, c])
    # ---- beyond the listed properties: the network-level variable maps list the elements the specification lists
    if "maps" in t and (last[0] != "error" or exp[0] == "error") and not same_names:
        for m, want_ in t["maps"].items():
            if obs["maps"].get(m) != list(want_):
                out["drift"].append([f"net.{m} lists {obs['maps'].get(m)}, the specification {list(want_)}", c])
    # ---- C19: a function has no free symbols and reflects the most recent step
    if exp[0] == "function" and last[0] == "function":
        try:
            nfree = len(w.F.get_free())
        except BaseException:  # noqa: BLE001
            nfree = -1
        if nfree != 0:
            out["c19"].append(["function has free symbols", nfree])
        if exp[1] and not same_names:
            out["dyn"] = dyn_record(w, t, c[1])
    # ---- C19: compiling is an observation (the model's compile leaves the state unchanged): the function produced at the
    # end of a history that compiled before must be the function of the same history WITHOUT the earlier compilations
    if (c[0] == "compile" and exp[0] == "function" and last[0] == "function" and not same_names and not recycle
            and any(x[0] == "compile" for x in hist[:-1])):
        w2 = World(False, False)
        for x in hist[:-1]:
            if x[0] != "compile":
                w2.call(x)
        r2 = w2.call(c)
        if r2[0] == "function":
            try:
                a, b = eval_by_name(w, w.F), eval_by_name(w2, w2.F)
            except BaseException:  # noqa: BLE001
                a = b = None
            if a is not None and b is not None:
                if [n for n, _ in a] != [n for n, _ in b]:
                    out["c19"].append(["the function does not reflect the most recent step: its results differ from those of the same history without the earlier compilations", [n for n, _ in a], [n for n, _ in b]])
                else:
                    for (n, x), (_, y) in zip(a, b):
                        if x.shape != y.shape or not np.allclose(x, y, rtol=1e-9, atol=1e-9, equal_nan=True):
                            out["c19"].append(["the function does not reflect the most recent step: it differs from the function of the same history without the earlier compilations", n, x.tolist(), y.tolist()])
                            break
    # ---- C12: repeatability of every NumPy step from caller values made along this history
    for la, r, vals, par, opts, got, dst in w.repeat:
        ref = fresh_np_step(la, r, vals, par, opts, dst)
        for k_, v in ref.items():
            if k_ not in got or not np.array_equal(got[k_], v, equal_nan=True):
                out["c12"].append(["stepping from the same values gave a different next state than on a fresh network", list(k_), vals, par, opts])
                break
    return out

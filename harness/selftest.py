#!/venv/bin/python
"""Self-validation of the machinery (not a registered check): apply one catalogued source
mutation to a scratch copy of the repository (outside /repo and /verif), confirm that the
pinned baseline tests still pass there, run the quick checks of the named properties with
VERIF_REPO pointing at the copy, and report which checks raised a VIOLATION.

  selftest.py list
  selftest.py run <mutant> [--props C01,C02] [--no-tests]
  selftest.py all [--jobs N]
"""
from __future__ import annotations

import argparse
import json
import os
import shutil
import subprocess
import sys
import tempfile
from concurrent.futures import ThreadPoolExecutor

HERE = os.path.dirname(os.path.abspath(__file__))
sys.path.insert(0, HERE)
from mutants import MUTANTS, REFACTORINGS  # noqa: E402

BASELINE = json.load(open("/root/.vp/BASELINE.json"))["stable_pass"]


def make_copy(mut) -> str:
    d = tempfile.mkdtemp(prefix="verif-mut-", dir="/var/tmp")
    # the COMMITTED tree of /repo (its working tree may carry a seeded patch under confrontation at this moment)
    src = os.environ.get("VP_RUN_REPO") or "/repo"
    tar = subprocess.run(["git", "-C", src, "archive", "HEAD", "src", "tests", "pyproject.toml"], capture_output=True, check=True)
    subprocess.run(["tar", "-x", "-C", d], input=tar.stdout, check=True)
    for path, old, new in mut["edits"]:
        p = os.path.join(d, path)
        txt = open(p).read()
        if txt.count(old) < 1:
            raise SystemExit(f"mutant {mut['name']}: pattern not found in {path}: {old[:60]!r}")
        open(p, "w").write(txt.replace(old, new, mut.get("count", 1)))
    return d


def tests_pass(d: str) -> tuple[bool, str]:
    env = dict(os.environ, PYTHONPATH=os.path.join(d, "src"))
    r = subprocess.run(["/venv/bin/python", "-m", "pytest", "-q", "-p", "no:cacheprovider", "--timeout=900",
                        "--continue-on-collection-errors", "--ignore=tests/test_examples.py", "tests"],
                       cwd=d, env=env, capture_output=True, text=True)
    tail = r.stdout.strip().splitlines()[-1] if r.stdout.strip() else ""
    # the pinned baseline (32 tests) must pass; newly enabled tests may also be required to pass
    ok = " failed" not in tail and "passed" in tail
    return ok, tail


def run_one(name: str, props=None, tests=True) -> dict:
    mut = next(m for m in MUTANTS + REFACTORINGS if m["name"] == name)
    mut.setdefault("breaks", [])
    d = make_copy(mut)
    try:
        res = {"mutant": name, "breaks": mut["breaks"], "tests": None, "detected": {}, "silent_ok": {}}
        if tests:
            res["tests"] = tests_pass(d)
        for pid in (props or mut["breaks"] + mut.get("also", []) + mut.get("silent", [])):
            r = subprocess.run(["/venv/bin/python", os.path.join(HERE, "check.py"), pid, "--tier", "quick"],
                               env=dict(os.environ, VERIF_REPO=d, VERIF_NO_EVIDENCE="1"), capture_output=True, text=True,
                               cwd=os.path.dirname(HERE))
            res["detected"][pid] = (r.returncode, sum(1 for l in r.stdout.splitlines() if l.startswith("VIOLATION")))
            if r.returncode == 2:
                res["detected"][pid] = (2, r.stdout.strip().splitlines()[-3:])
        return res
    finally:
        shutil.rmtree(d, ignore_errors=True)


def main():
    ap = argparse.ArgumentParser()
    ap.add_argument("cmd")
    ap.add_argument("name", nargs="?")
    ap.add_argument("--props")
    ap.add_argument("--no-tests", action="store_true")
    ap.add_argument("--jobs", type=int, default=2)
    a = ap.parse_args()
    if a.cmd == "list":
        for m in MUTANTS:
            print(m["name"], m["breaks"], "-", m["why"])
        return
    if a.cmd == "run":
        print(json.dumps(run_one(a.name, a.props.split(",") if a.props else None, not a.no_tests), indent=1))
        return
    if a.cmd == "silent":
        bad = 0
        for m in REFACTORINGS:
            res = run_one(m["name"], None, not a.no_tests)
            noisy = {p: v for p, v in res["detected"].items() if v[0] != 0}
            bad += bool(noisy)
            print(("FALSE-ALARM " if noisy else "silent ") + m["name"], "tests:", res["tests"], {p: v[0] for p, v in res["detected"].items()}, noisy or "", flush=True)
        sys.exit(1 if bad else 0)
    if a.cmd == "all":
        names = [m["name"] for m in MUTANTS]
        allres = []
        with ThreadPoolExecutor(a.jobs) as ex:
            for res in ex.map(lambda n: run_one(n, None, not a.no_tests), names):
                det = {p: v[0] for p, v in res["detected"].items()}
                missed = [p for p in res["breaks"] if det.get(p) != 1]
                print(("MISSED " if missed else "caught ") + res["mutant"], "tests:", res["tests"], det, flush=True)
                why = next(m["why"] for m in MUTANTS if m["name"] == res["mutant"])
                allres.append({"mutant": res["mutant"], "why": why, "breaks": res["breaks"], "repository_tests": res["tests"],
                               "check_exit": det, "missed": missed})
        out = os.path.join(os.path.dirname(HERE), "seeded", "mutants_last_run.json")
        json.dump(allres, open(out, "w"), indent=1)


if __name__ == "__main__":
    main()

#!/venv/bin/python
"""Pre-generate the TLC outputs of the quick tier (they depend only on the specification and the seed,
never on the repository), so that a quick check spends its time on the implementation."""
import os
import sys
from concurrent.futures import ThreadPoolExecutor

sys.path.insert(0, os.path.dirname(os.path.abspath(__file__)))
import common  # noqa: E402


def main(tier="quick"):
    import buildcheck
    import dyncases
    import dyncheck
    import lifecheck
    import primcheck
    common.ensure_built()
    jobs = []
    seen = set()
    for pid, plan in dyncheck.PLANS.items():
        b = plan[tier]
        key = (b["n"], b["m"], common.seed(), b["variants"], b["generic"], b["corners"], plan.get("family", "base"))
        if key not in seen:
            seen.add(key)
            jobs.append(lambda k=key: dyncases.cases(k[0], k[1], k[2], k[3], k[4], k[5], family=k[6], shards=4))
    for pid, plan in buildcheck.PLANS.items():
        for prof in plan[tier]:
            if ("b",) + tuple(prof) not in seen:
                seen.add(("b",) + tuple(prof))
                jobs.append(lambda p=prof: buildcheck.transitions(*p))
    for pid, plan in lifecheck.PLANS.items():
        jobs.append(lambda p=plan: lifecheck.transitions(p["profile"], p[tier]))
    jobs.append(lambda: primcheck.cases(1 if tier == "quick" else 2))
    import sesscheck
    for prof, depth in sesscheck.DEPTH[tier].items():
        jobs.append(lambda p=prof, d=depth: sesscheck.transitions(p, d))
    # shapes first (shared), then everything else in parallel
    dyncases.shapes(3, 3)
    with ThreadPoolExecutor(6) as ex:
        for r in ex.map(lambda j: j(), jobs):
            pass
    print(f"pregen ok: {len(jobs)} TLC outputs cached under .cache/")


if __name__ == "__main__":
    main(sys.argv[1] if len(sys.argv) > 1 else "quick")

"""Direction B for the lifecycle layer: seeded random histories (longer than the exhaustive bound) executed by the real
library, recorded call by call, validated by TLC (Trace_Life.tla); functions compiled at the end of a history whose next
states all come from uniform parameters are additionally validated numerically (Trace_Dyn.tla)."""
from __future__ import annotations

import json
import multiprocessing as mp
import os
import random
import shutil
import time
from concurrent.futures import ThreadPoolExecutor

import common
import dynpipe
from common import MachineryError, NCPU, WORK, printed, run_tlc, tlc_error_excerpt


def rand_history(rng: random.Random, n: int):
    """calls of one engine kind only (mixed kinds are outside the model); tracks which late replacements were made"""
    la, r, dst = "L1", "R1", "D0"
    calls = []
    main = rng.choice(["P1", "P2"])          # most steps of one history use the same parameters and options
    par = lambda: main if rng.random() < 0.85 else ("P2" if main == "P1" else "P1")  # noqa: E731
    for i in range(n):
        x = rng.random()
        if x < 0.12 and calls:
            # touch a neighbour between two identical steps of the same element: the second step must see the neighbour's new variables
            stf = [la, "L2", "O1", r]
            e1 = rng.choice(stf)
            e2 = rng.choice([e for e in stf if e != e1])
            p_ = par()
            if dst == "D0" and rng.random() < 0.4:
                # replace the free destination by a congested one between two identical steps of the link that feeds it
                calls += [["step", "L2", "", p_, "O0"], ["add_later", "D1"], ["init", "D1", ""], ["step", "L2", "", p_, "O0"]]
                dst = "D1"
            else:
                calls += [["step", e1, "", p_, "O0"], ["init", e2, ""], ["step", e2, "", p_, "O0"], ["step", e1, "", p_, "O0"]]
            if rng.random() < 0.5:
                calls.append(["compile", None])
            continue
        innet = [la, "L2", "O1", r, dst]
        stateful = [la, "L2", "O1", r]
        if x < 0.22:
            calls.append(["net_step", "", par(), rng.choice(["O0", "O0", "O1"]), ""])
        elif x < 0.37:
            calls.append(["init", rng.choice(innet), ""])
        elif x < 0.40:
            calls.append(["net_step_fail", ""])     # a whole-network step that fails part-way (no sampling time)
        elif x < 0.46:
            calls.append(["init_all", ""])
        elif x < 0.72:
            calls.append(["step", rng.choice(stateful), "", par(), "O0"])
        elif x < 0.80 and (la == "L1" or r == "R1" or dst == "D0"):
            which = rng.choice([w for w in (("L3",) if la == "L1" else ()) + (("R2",) if r == "R1" else ()) + (("D1",) if dst == "D0" else ())])
            calls.append(["add_later", which])
            la, r, dst = ("L3" if which == "L3" else la), ("R2" if which == "R2" else r), ("D1" if which == "D1" else dst)
        else:
            calls.append(["compile", None])
            if rng.random() < 0.4:
                # ... and straight afterwards one element is stepped again with the OTHER parameters and the network compiled again
                calls += [["step", rng.choice(stateful), "", "P2" if main == "P1" else "P1", "O0"], ["compile", None]]
    calls.append(["compile", None])
    return calls


def _record(args):
    tid, kind, calls, want_dyn = args
    import liferun
    w = liferun.World()
    w.call(["use_inst", "trace_engine", kind])
    obs, done = [], []
    last = None
    for c in calls:
        c = [kind if (c[0] == "compile" and x is None) else x for x in c]
        last = w.call(c)
        o = {"kind": last[0] if last[0] in ("error", "function") else "ok", "runtime_error": False, "free": 0,
             "vars": w.observe()["vars"]}
        if last[0] == "error":
            o["runtime_error"] = isinstance(last[1], RuntimeError)
            o["err"] = f"{type(last[1]).__name__}: {str(last[1])[:100]}"
        if last[0] == "function":
            try:
                o["free"] = len(w.F.get_free())
            except BaseException:  # noqa: BLE001
                o["free"] = -1
        obs.append(o)
        done.append(c)
    rec = {"id": tid, "kind": kind, "calls": done, "obs": obs}
    if last is not None and last[0] == "function":
        try:
            ev = liferun.eval_by_name(w, w.F)
            rec["final_eval"] = None if ev is None else [[n, [float(z) for z in x]] for n, x in ev]
        except BaseException:  # noqa: BLE001
            rec["final_eval"] = None
    if want_dyn is not None and last is not None and last[0] == "function":
        rec["dyn"] = liferun.dyn_record(w, {"h": done, "lastpar": [want_dyn[0], want_dyn[1], ""]}, kind)
        rec["dyn"]["id"] = "lifetrace-" + tid
    return rec


def run(pid: str, tier: str) -> dict:
    seed = common.seed()
    ntr, length = (300, 14) if tier == "quick" else (4000, 30)
    rng = random.Random(seed * 7907 + 3)
    jobs = [(f"lt{seed}-{i}", rng.choice(["sx", "mx"]), rand_history(rng, rng.randint(3, length)), None) for i in range(ntr)]
    # fixed histories (independent of the random stream): an element re-stepped with identical arguments after a
    # neighbour changed without leaving a stale symbol behind (the free destination replaced by a congested one; a
    # neighbour re-initialised and re-stepped) - the re-step must see the change
    fixed = []
    for P in ("P1", "P2"):
        fixed.append([["net_step", "", P, "O0", ""], ["step", "L2", "", P, "O0"], ["add_later", "D1"], ["init", "D1", ""],
                      ["step", "L2", "", P, "O0"], ["compile", None]])
        fixed.append([["net_step", "", P, "O0", ""], ["step", "L1", "", P, "O0"], ["init", "L2", ""], ["step", "L2", "", P, "O0"],
                      ["step", "L1", "", P, "O0"], ["step", "R1", "", P, "O0"], ["compile", None]])
        fixed.append([["net_step", "", P, "O0", ""], ["step", "O1", "", P, "O0"], ["init", "L1", ""], ["step", "L1", "", P, "O0"],
                      ["step", "O1", "", P, "O0"], ["step", "L2", "", P, "O0"], ["compile", None]])
    jobs = [(f"ltfix{seed}-{i}-{k}", k, h, None) for i, h in enumerate(fixed) for k in ("sx", "mx")] + jobs
    ctx = mp.get_context("spawn")
    with ctx.Pool(min(NCPU, 12)) as pool:
        traces = pool.map(_record, jobs, chunksize=8)
    shards = max(1, min(NCPU, len(traces) // 25))
    d = WORK / f"ltrace-{os.getpid()}-{time.time_ns()}"
    d.mkdir(parents=True, exist_ok=True)
    files = []
    for k in range(shards):
        p = d / f"s{k}.ndjson"
        # (final_eval is the harness's own observation for the relation between executions: not part of the trace TLC reads)
        p.write_text("".join(json.dumps({k_: v_ for k_, v_ in t.items() if k_ != "final_eval"}) + "\n" for t in traces[k::shards]))
        files.append(p)
    try:
        with ThreadPoolExecutor(shards) as ex:
            results = list(ex.map(lambda p: run_tlc("Trace_Life.tla", cfg="Trace_Life.cfg", env={"TRACE_FILE": str(p)}, workers=1,
                                                    tag=p.name), files))
        verdicts, states = {}, 0
        for p, res in zip(files, results):
            vs = printed(res["out"], "VERDICT")
            n = sum(1 for _ in p.open())
            if not res["ok"] or len(vs) != n:
                shutil.copy(p, WORK / "last-failed-ltrace.ndjson")
                raise MachineryError(f"Trace_Life gave {len(vs)}/{n} verdicts (rc={res['rc']}):\n" + tlc_error_excerpt(res["out"]))
            states += res["states"]
            for v in vs:
                verdicts[v["id"]] = v
    finally:
        shutil.rmtree(d, ignore_errors=True)
    viol = []
    pref = {"C19": ("c19.", "crash"), "C13": ("c13.",), "C12": ()}[pid]
    again = []
    for (tid, kind, calls, _), t in zip(jobs, traces):
        v = verdicts[t["id"]]
        for step, clause in v["fails"]:
            if clause.startswith("model."):
                continue   # a call the model leaves unspecified: the rest of this history is not judged
            if clause == "c19.ready_not_compiled" and not all(x[0] in ("net_step", "compile") for x in t["calls"][:step]):
                continue   # outside the listed properties (see liferun.replay_transition)
            if any(clause.startswith(p_) for p_ in pref):
                viol.append({"signature": f"{pid}|{clause}|{json.dumps(t['calls'][step - 1])}",
                             "summary": f"recorded history {t['id']} ({kind}) step {step} {json.dumps(t['calls'][step - 1])}: {clause}; "
                                        f"history {json.dumps(t['calls'][:step])[:300]}",
                             "payload": {"kind": "lifetrace", "trace": {"id": t["id"], "kind": kind, "calls": t["calls"][:step]}, "clause": clause}})
        if pid == "C19" and not v["fails"] and v["uniform"] and t["obs"][-1]["kind"] == "function":
            again.append((tid, kind, calls, v["last"]))
    nnum = 0
    if again:
        with ctx.Pool(min(NCPU, 12)) as pool:
            recs = [r["dyn"] for r in pool.map(_record, again, chunksize=4) if "dyn" in r]
        nnum = len(recs)
        for r, v in zip(recs, dynpipe.validate(recs, tag="lifetrace")):
            bad = [x for x in v["fails"] if x[0].startswith("fn.")]
            if bad:
                viol.append({"signature": f"{pid}|function does not reflect the most recent step|{r['id']}",
                             "summary": f"function compiled at the end of recorded history {r['id']} differs from the step with the most recent parameters: {json.dumps(bad[:3])}",
                             "payload": {"kind": "lifetrace", "record": r["id"], "fails": bad[:10]}})
    # compiling is an observation (the model's compile leaves the state unchanged): the function at the end of a recorded
    # history that compiled before must be the function of the same history without the earlier compilations
    nobs = 0
    if pid == "C19":
        import math
        cand = [(t, [c for c in t["calls"][:-1] if c[0] != "compile"] + [t["calls"][-1]]) for t in traces
                if t.get("final_eval") and not verdicts[t["id"]]["fails"] and any(c[0] == "compile" for c in t["calls"][:-1])]
        if cand:
            with ctx.Pool(min(NCPU, 12)) as pool:
                twins = pool.map(_record, [(t["id"] + "-nocompile", t["kind"], calls, None) for t, calls in cand], chunksize=4)
            for (t, calls), tw in zip(cand, twins):
                if not tw.get("final_eval"):
                    continue
                nobs += 1
                a, b = t["final_eval"], tw["final_eval"]
                same = [n for n, _ in a] == [n for n, _ in b] and all(
                    len(x) == len(y) and all((math.isnan(p_) and math.isnan(q_)) or abs(p_ - q_) <= 1e-9 * max(1.0, abs(p_), abs(q_)) for p_, q_ in zip(x, y))
                    for (_, x), (_, y) in zip(a, b))
                if not same:
                    viol.append({"signature": f"{pid}|function differs from the same history without earlier compilations|{t['id']}",
                                 "summary": f"recorded history {t['id']} ({t['kind']}): the function compiled last differs from the function of the same history "
                                            f"without the earlier compilations (it does not reflect the most recent step); history {json.dumps(t['calls'])[:300]}",
                                 "payload": {"kind": "lifetrace", "trace": {"id": t["id"], "kind": t["kind"], "calls": t["calls"]}, "clause": "c19.compile_is_observation"}})
    return {"violations": viol, "states": states, "traces": len(traces), "calls": sum(len(t["calls"]) for t in traces),
            "compile_is_observation_pairs": nobs, "numeric": nnum, "samples": [{"recorded_lifecycle_history": traces[0]["calls"][:10]}]}

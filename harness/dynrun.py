"""Drive the real library on one abstract dynamics case and record what it returns.

A case (JSON, produced by the TLA+ case generator DynCases.tla or by the random
recorder) names a network abstractly; this module builds it through the public API
of sym_metanet (from $VERIF_REPO/src, default /repo/src), steps it with the NumPy
engine and the CasADi engines, compiles functions, and logs raw observations.
It contains NO model formulas and no layout knowledge: interpretation is done by
TLC against the specification (Trace_Dyn.tla).
"""
from __future__ import annotations

import json
import os
import random
import sys
import traceback
import warnings
import zlib

REPO = os.environ.get("VERIF_REPO", "/repo")
sys.path.insert(0, os.path.join(REPO, "src"))

import casadi as cs  # noqa: E402
import numpy as np  # noqa: E402

from common import fr, num  # noqa: E402

warnings.simplefilter("ignore")
np.seterr(all="ignore")

OPT_KW = {"pis": "positive_init_speed", "pid": "positive_init_density", "piq": "positive_init_queue",
          "pns": "positive_next_speed", "pnd": "positive_next_density", "pnq": "positive_next_queue"}
UNAME = {"mainstream": "v_ctrl", "ramp_in": "r", "ramp_out": "r", "simp_limited": "q", "simp_unlimited": "q"}
LINK_PARAM_ATTR = {"rho_crit": "rho_crit", "v_free": "v_free", "a": "a", "rho_max": "rho_max", "lam": "lam", "L": "L",
                   "beta": "turnrate"}
MODEL_PARAMS = ("T", "tau", "eta", "kappa", "delta", "phi")


def _sm():
    import sym_metanet
    return sym_metanet


NUMREP = 0   # representation of numeric parameters handed to the constructors (set per case by Built)


def _set_numrep(case, arrays):
    global NUMREP
    NUMREP = zlib.crc32(f"{case.get('id')}|numrep".encode()) % (4 if arrays else 3)


def _n(s):
    """a numeric parameter as users write it: an int where integral (0), always a float (1), a NumPy scalar (2),
    a 0-d array (3, only for networks stepped with the NumPy engine, whose "symbols" are arrays)"""
    v = num(s)
    if NUMREP == 1:
        return float(v)
    if NUMREP == 2:
        return np.float64(v)
    if NUMREP == 3:
        return np.array(float(v))     # 0-d float64 array (NumPy engine only)
    return int(v) if float(v).is_integer() and abs(v) < 1e9 else v


def errstr(e: BaseException) -> str:
    return f"{type(e).__name__}: {str(e)[:160]}"


class Built:
    """a network built from a case, with the maps abstract id <-> real object"""

    def __init__(self, case: dict, syms: dict | None = None, arrays: bool = False):
        sm = _sm()
        nj = case["net"]
        names = case.get("names") or {}
        _set_numrep(case, arrays)
        self.bufs = []   # (buffer, pristine copy) behind strided views handed to the library
        syms = syms or {}  # (kind, el) -> symbol replacing a numeric parameter
        nm = lambda i: names.get(i, i)  # noqa: E731
        self.case = case
        self.nodes, self.links, self.origins, self.dests = {}, {}, {}, {}

        def node(i):
            if i not in self.nodes:
                self.nodes[i] = sm.Node(name=nm(i))
            return self.nodes[i]

        def lp(l, k, key):
            return syms.get((key, l), syms.get((key, "*"), _n(k[key])))

        for l, k in nj["links"].items():
            args = (int(k["N"]), lp(l, k, "lam"), lp(l, k, "L"), lp(l, k, "rho_max"), lp(l, k, "rho_crit"),
                    lp(l, k, "v_free"), lp(l, k, "a"))
            if k["ctl"]:
                self.links[l] = sm.LinkWithVsl(*args, turnrate=lp(l, k, "beta"), name=nm(l),
                                               segments_with_vsl={int(i) - 1 for i in k["vsl"]}, alpha=num(k["alpha"]))
            else:
                self.links[l] = sm.Link(*args, turnrate=lp(l, k, "beta"), name=nm(l))
        for o, k in nj["origins"].items():
            C = syms.get(("C", o), syms.get(("C", "*"), _n(k["C"])))
            kind = k["kind"]
            self.origins[o] = {
                "ideal": lambda: sm.Origin(name=nm(o)),
                "mainstream": lambda: sm.MainstreamOrigin(name=nm(o)),
                "ramp_in": lambda: sm.MeteredOnRamp(C, "in", name=nm(o)),
                "ramp_out": lambda: sm.MeteredOnRamp(C, "out", name=nm(o)),
                "simp_limited": lambda: sm.SimplifiedMeteredOnRamp(C, "limited", name=nm(o)),
                "simp_unlimited": lambda: sm.SimplifiedMeteredOnRamp(C, "unlimited", name=nm(o)),
            }[kind]()
        for d, k in nj["dests"].items():
            self.dests[d] = sm.Destination(name=nm(d)) if k["kind"] == "free" else sm.CongestedDestination(name=nm(d))

        net = sm.Network(name=case.get("id", "net"))
        script = case.get("build") or self.default_script()
        obj = lambda i: self.links.get(i) or node(i)  # noqa: E731
        for st in script:
            op = st[0]
            if op == "node":
                net.add_node(node(st[1]))
            elif op == "nodes":
                net.add_nodes([node(i) for i in st[1]])
            elif op == "link":
                net.add_link(node(st[1]), self.links[st[2]], node(st[3]))
            elif op == "links":
                net.add_links([(node(a), self.links[b], node(c)) for a, b, c in st[1]])
            elif op == "origin":
                net.add_origin(self.origins[st[1]], node(st[2]))
            elif op == "dest":
                net.add_destination(self.dests[st[1]], node(st[2]))
            elif op == "path":
                net.add_path([obj(i) for i in st[1]], origin=self.origins.get(st[2]) if st[2] else None,
                             destination=self.dests.get(st[3]) if st[3] else None)
            elif op == "copy":
                # the caller goes on with a COPY of everything built so far (copy.deepcopy, or a pickle round trip)
                import copy
                import pickle
                pack = (net, self.nodes, self.links, self.origins, self.dests)
                net, self.nodes, self.links, self.origins, self.dests = (
                    copy.deepcopy(pack) if st[1] == "deepcopy" else pickle.loads(pickle.dumps(pack)))
            elif op == "use":
                # the network is USED half-way through its construction (stepped, compiled, looked at), which must not
                # matter once construction is finished; the intermediate network may be invalid: errors are the caller's
                try:
                    net.is_valid(raises=False)
                    if st[1] == "np":
                        net.step(engine=np_engine("rand"), **par_kwargs(case))
                    else:
                        eng_ = cs_engine(st[1])
                        net.step(engine=eng_, **par_kwargs(case))
                        eng_.to_function(net, compact=0, more_out=True, **par_kwargs(case))
                except BaseException:  # noqa: BLE001
                    pass
            else:
                raise ValueError(f"unknown build step {op}")
        self.net = net
        self.idof = {}
        for table in (self.links, self.origins, self.dests):
            for i, ob in table.items():
                self.idof[ob] = i

    def default_script(self):
        nj = self.case["net"]
        s = [["link", k["up"], l, k["down"]] for l, k in nj["links"].items()]
        if zlib.crc32(f"{self.case.get('id')}|order".encode()) % 2 == 1:
            s.reverse()     # downstream part first
        s += [["origin", o, k["node"]] for o, k in nj["origins"].items()]
        s += [["dest", d, k["node"]] for d, k in nj["dests"].items()]
        return s

    # ------------------------------------------------------------------ values
    def np_init(self, x, u, d, mode=0, ints=False, col=False):
        """init_conditions dict of fresh NumPy arrays from abstract values (dicts of floats).
        mode 0: contiguous writable arrays; 1: read-only arrays (an in-place write raises); 2: strided views of larger
        buffers (an in-place write lands in the caller's buffer, kept in self.bufs for comparison);
        ints: arrays holding whole numbers get an integer dtype; col: the states of single-segment links as (1, 1) columns"""
        def arr(vals):
            a = np.array(vals, float)
            if ints and a.size and np.all(a == np.round(a)) and np.all(np.abs(a) < 1e6):
                a = a.astype(np.int64)     # whole numbers written without a decimal point give an integer array
            if mode == 1:
                a.flags.writeable = False
            elif mode == 2:
                buf = np.full(2 * len(a) + 3, -777).astype(a.dtype)
                view = buf[1:1 + 2 * len(a):2]
                view[...] = a
                self.bufs.append((buf, buf.copy()))
                return view
            return a
        ic = {}
        nj = self.case["net"]
        flip = zlib.crc32(f"{self.case.get('id')}|keyorder".encode()) % 2 == 1   # the caller's spelling of its dictionaries
        for l, ob in self.links.items():
            e = {"v": arr(x["v"][l]), "rho": arr(x["rho"][l])} if flip else {"rho": arr(x["rho"][l]), "v": arr(x["v"][l])}
            if col and mode == 0 and len(x["rho"][l]) == 1 and not nj["links"][l]["ctl"]:
                e = {k_: a_.reshape(1, 1) for k_, a_ in e.items()}
            if nj["links"][l]["ctl"]:
                e["v_ctrl"] = arr(u["vctrl"].get(l, []))
            ic[ob] = e
        for o, ob in self.origins.items():
            kind = nj["origins"][o]["kind"]
            if kind == "ideal":
                continue
            ic[ob] = ({UNAME[kind]: arr([u["o"][o]]), "d": arr([d["o"][o]]), "w": arr([x["w"][o]])} if flip else
                      {"w": arr([x["w"][o]]), "d": arr([d["o"][o]]), UNAME[kind]: arr([u["o"][o]])})
        for k, ob in self.dests.items():
            if nj["dests"][k]["kind"] == "congested":
                ic[ob] = {"d": arr([d["dest"][k]])}
        return ic

    def byname(self, x, u, d):
        """values keyed by the argument names of an uncompacted function"""
        nj = self.case["net"]
        names = self.case.get("names") or {}
        nm = lambda i: names.get(i, i)  # noqa: E731
        v = {}
        for l in self.links:
            v[f"rho_{nm(l)}"] = x["rho"][l]
            v[f"v_{nm(l)}"] = x["v"][l]
            if nj["links"][l]["ctl"]:
                v[f"v_ctrl_{nm(l)}"] = u["vctrl"].get(l, [])
        for o in self.origins:
            kind = nj["origins"][o]["kind"]
            if kind == "ideal":
                continue
            v[f"w_{nm(o)}"] = [x["w"][o]]
            v[f"d_{nm(o)}"] = [d["o"][o]]
            v[f"{UNAME[kind]}_{nm(o)}"] = [u["o"][o]]
        for k in self.dests:
            if nj["dests"][k]["kind"] == "congested":
                v[f"d_{nm(k)}"] = [d["dest"][k]]
        return v

    def read_next(self):
        y = {"rho": {}, "v": {}, "w": {}}
        shapes = True
        for l, ob in self.links.items():
            for var in ("rho", "v"):
                nxt = ob.next_states[var]
                y[var][l] = [fr(z) for z in np.asarray(nxt, float).reshape(-1)]
                shapes &= np.shape(nxt) == np.shape(ob.states[var])
        for o, ob in self.origins.items():
            if self.case["net"]["origins"][o]["kind"] == "ideal":
                continue
            nxt = ob.next_states["w"]
            y["w"][o] = fr(np.asarray(nxt, float).reshape(-1)[0])
            shapes &= np.shape(nxt) == np.shape(ob.states["w"])
        return y, bool(shapes)


def values(case):
    x = {"rho": {l: [num(z) for z in s] for l, s in case["x"]["rho"].items()},
         "v": {l: [num(z) for z in s] for l, s in case["x"]["v"].items()},
         "w": {o: num(z) for o, z in (case["x"]["w"] or {}).items()}}
    u = {"vctrl": {l: [num(z) for z in s] for l, s in (case["u"]["vctrl"] or {}).items()},
         "o": {o: num(z) for o, z in (case["u"]["o"] or {}).items()}}
    d = {"o": {o: num(z) for o, z in (case["d"]["o"] or {}).items()},
         "dest": {k: num(z) for k, z in (case["d"]["dest"] or {}).items()}}
    return x, u, d


def par_kwargs(case, syms=None):
    p = case["par"]
    syms = syms or {}
    kw = {k: syms.get((k, "*"), num(p[k])) for k in ("T", "tau", "eta", "kappa")}
    if p["hasDelta"]:
        kw["delta"] = syms.get(("delta", "*"), num(p["delta"]))
    if p["hasPhi"]:
        kw["phi"] = syms.get(("phi", "*"), num(p["phi"]))
    return kw


def opt_kwargs(case):
    return {OPT_KW[k]: bool(v) for k, v in case["opts"].items()}


REUSE_ENGINES = False   # per case: every call gets a fresh engine object, or the whole worker process shares one per kind
_ENGINES: dict = {}


def np_engine(var_type="empty"):
    from sym_metanet.engines.numpy import Engine
    if REUSE_ENGINES:
        if ("np", var_type) not in _ENGINES:
            _ENGINES[("np", var_type)] = Engine(var_type)
        return _ENGINES[("np", var_type)]
    return Engine(var_type)


def cs_engine(sym):
    from sym_metanet.engines.casadi import Engine
    if REUSE_ENGINES:
        if ("cs", sym) not in _ENGINES:
            _ENGINES[("cs", sym)] = Engine(sym)
        return _ENGINES[("cs", sym)]
    return Engine(sym)


def slots_of(case):
    """all input slots of a case as (kind, el, idx1) with accessor paths"""
    out = []
    for l, s in case["x"]["rho"].items():
        for i in range(len(s)):
            out.append(("rho", l, i + 1))
            out.append(("v", l, i + 1))
    for o in (case["x"]["w"] or {}):
        out += [("w", o, 1), ("uo", o, 1), ("do", o, 1)]
    for l, s in (case["u"]["vctrl"] or {}).items():
        for i in range(len(s)):
            out.append(("vc", l, i + 1))
    for k in (case["d"]["dest"] or {}):
        out.append(("dd", k, 1))
    return out


def perturbed(x, u, d, slot):
    import copy
    x, u, d = copy.deepcopy(x), copy.deepcopy(u), copy.deepcopy(d)
    kind, el, i = slot
    f = lambda z: z * 1.37 + 0.173  # noqa: E731
    if kind in ("rho", "v"):
        x[kind][el][i - 1] = f(x[kind][el][i - 1])
    elif kind == "w":
        x["w"][el] = f(x["w"][el])
    elif kind == "uo":
        u["o"][el] = f(u["o"][el])
    elif kind == "do":
        d["o"][el] = f(d["o"][el])
    elif kind == "vc":
        u["vctrl"][el][i - 1] = f(u["vctrl"][el][i - 1])
    elif kind == "dd":
        d["dest"][el] = f(d["dest"][el])
    return x, u, d


def flat_next(b: Built):
    out = []
    for l, ob in b.links.items():
        for var in ("rho", "v"):
            for i, z in enumerate(np.asarray(ob.next_states[var], float).reshape(-1)):
                out.append(((var, l, i + 1), z))
    for o, ob in b.origins.items():
        if b.case["net"]["origins"][o]["kind"] != "ideal":
            out.append((("w", o, 1), float(np.asarray(ob.next_states["w"], float).reshape(-1)[0])))
    return out


def observe(case: dict) -> dict:
    """run everything the case asks for; never raises"""
    global REUSE_ENGINES
    REUSE_ENGINES = zlib.crc32(f"{case.get('id')}|engines".encode()) % 2 == 1
    # every call below passes its engine explicitly: which engine happens to be SELECTED in the process must not matter
    from sym_metanet import engines as _eng
    _sel = zlib.crc32(f"{case.get('id')}|selected".encode()) % 3
    _eng.use("numpy") if _sel == 1 else _eng.use(cs_engine("MX")) if _sel == 2 else _eng.use("casadi")
    want = case.get("want") or {}
    obs = {"valid": False, "nmsgs": 0, "valid_err": "", "elements": [], "elements_ok": False,
           "np": {"has": False}, "np_plain": {"has": False}, "steps": [], "fn": [], "jac": [], "sens": [],
           "twin": {"has": False}, "spy": []}
    try:
        b = Built(case, arrays=True)   # this network is only stepped with the NumPy engine
    except BaseException as e:  # noqa: BLE001
        obs["valid_err"] = "build: " + errstr(e)
        return obs
    x, u, d = values(case)
    kw = par_kwargs(case)
    okw = opt_kwargs(case)
    names = case.get("names") or {}
    rev = {v: k for k, v in names.items()}
    try:
        ok, msgs = b.net.is_valid(raises=False)
        obs["valid"], obs["nmsgs"] = bool(ok), len(msgs)
    except BaseException as e:  # noqa: BLE001
        obs["valid_err"] = errstr(e)
    try:
        els = [b.idof.get(el, el.name) for el in b.net.elements]
        obs["elements"] = els
        allids = list(b.links) + list(b.origins) + list(b.dests)
        obs["elements_ok"] = sorted(els) == sorted(allids)
    except BaseException as e:  # noqa: BLE001
        obs["valid_err"] += " elements: " + errstr(e)
        obs["elements"] = list(b.links) + list(b.origins) + list(b.dests)

    # ---- NumPy with caller-supplied arrays
    if want.get("np", True):
        o = {"has": True, "ok": False, "err": "", "y": {"rho": {}, "v": {}, "w": {}}, "shapes": True,
             "flows": {"has": False, "q": {}, "qo": {}, "err": ""},
             "feedback": {"has": False, "pairs": [], "err": ""}}
        o["pure"] = {"has": False}
        try:
            # C12 (pure): the caller's arrays in three representations, chosen per case
            amode = zlib.crc32(f"{case.get('id')}|arrays".encode()) % 3 if want.get("pure", False) else 0
            ints = zlib.crc32(f"{case.get('id')}|ints".encode()) % 3 == 0
            col = zlib.crc32(f"{case.get('id')}|col".encode()) % 5 == 0
            ic = b.np_init(x, u, d, amode, ints, col)
            # the history before the step is not part of its meaning: the next state is read after a plain step, or after
            # one of three detours on the same network object (chosen per case)
            via = zlib.crc32(f"{case.get('id')}|via".encode()) % 8
            if via == 7 and not want.get("sens"):
                # (d) the network was built with OTHER link parameters and origin capacities and stepped; the caller then
                # assigns the case's values to the elements' public attributes (time-varying split rates, ...) and steps
                oc = json.loads(json.dumps(case))
                for k_ in oc["net"]["links"].values():
                    for a_, f_ in (("beta", 1.7), ("rho_crit", 0.9), ("v_free", 1.1), ("a", 1.2), ("rho_max", 1.05), ("L", 1.3)):
                        k_[a_] = fr(num(k_[a_]) * f_ + (0.25 if a_ == "beta" else 0.0))
                for k_ in oc["net"]["origins"].values():
                    k_["C"] = fr(num(k_["C"]) * 0.7 + 10.0)
                b = Built(oc, arrays=True)
                b.case = case
                b.net.step(init_conditions=b.np_init(x, u, d), engine=np_engine(), **okw, **kw)
                _set_numrep(case, True)
                for l_, ob in b.links.items():
                    for a_, attr in LINK_PARAM_ATTR.items():
                        if a_ != "lam":
                            setattr(ob, attr, _n(case["net"]["links"][l_][a_]))
                for o_, ob in b.origins.items():
                    if hasattr(ob, "C"):
                        ob.C = _n(case["net"]["origins"][o_]["C"])
                ic = b.np_init(x, u, d, amode, ints, col)
                o["via"] = "attributes-reassigned"
            eng = np_engine()
            x0 = {"rho": {l: [0.83 * z + 1.9 for z in s_] for l, s_ in x["rho"].items()},
                  "v": {l: [1.07 * z + 2.3 for z in s_] for l, s_ in x["v"].items()},
                  "w": {q_: 0.5 * z + 3.0 for q_, z in x["w"].items()}}
            d0 = {"o": {q_: 1.1 * z + 7.0 for q_, z in d["o"].items()}, "dest": {q_: 0.9 * z + 1.0 for q_, z in d["dest"].items()}}
            if via == 3 and amode == 0 and not ints and not any(okw.get(OPT_KW[k_]) for k_ in ("pis", "pid", "piq")):
                # (a) step from other values, REFILL the very same arrays in place with the case's values, then step
                # element by element in the library's own order (origins with states, then links), no re-initialisation
                ic0 = b.np_init(x0, u, d0)
                b.net.step(init_conditions=ic0, engine=eng, **okw, **kw)
                for el_, dd in ic0.items():
                    for k_, a_ in dd.items():
                        a_[...] = ic[el_][k_]
                ic = ic0
                pristine = {el_: {k_: v_.copy() for k_, v_ in dd.items()} for el_, dd in ic.items()}
                for ob in b.net.origins:
                    if ob.has_states:
                        ob.step(net=b.net, engine=eng, positive_next_queue=okw.get("positive_next_queue", False), **kw)
                for _, _, ob in b.net.links:
                    ob.step(net=b.net, engine=eng, positive_next_speed=okw.get("positive_next_speed", False),
                            positive_next_density=okw.get("positive_next_density", False), **kw)
                o["via"] = "refill+elementwise"
            else:
                if via == 4 and b.links:
                    # (b) an earlier step on the same network FAILED part-way (unusable speeds for the last link)
                    bad = b.np_init(x0, u, d0)
                    last = list(b.links.values())[-1]
                    bad[last]["v"] = np.array(["?"] * len(bad[last]["v"]), dtype=object)
                    try:
                        b.net.step(init_conditions=bad, engine=eng, **okw, **kw)
                    except BaseException:  # noqa: BLE001
                        pass
                    o["via"] = "after-failed-step"
                elif via == 5 and b.links:
                    # (c) an earlier step from other values, then single elements stepped again by hand
                    b.net.step(init_conditions=b.np_init(x0, u, d0), engine=eng, **okw, **kw)
                    lk = list(b.links.values())
                    for ob in (lk[zlib.crc32(f"{case.get('id')}|e1".encode()) % len(lk)], lk[-1]):
                        ob.step(net=b.net, engine=eng, **kw)
                    o["via"] = "after-element-steps"
                pristine = {el_: {k_: v_.copy() for k_, v_ in dd.items()} for el_, dd in ic.items()}
                b.net.step(init_conditions=ic, engine=eng, **okw, **kw)
            keys = {el_: list(dd) for el_, dd in ic.items()}
            ids = {el_: {k_: id(v_) for k_, v_ in dd.items()} for el_, dd in ic.items()}
            o["y"], o["shapes"] = b.read_next()
            # the flows the elements REPORT for this step (C05), asked after it
            fl = {"has": False, "q": {}, "qo": {}, "err": ""}
            try:
                fl["q"] = {l_: [fr(z) for z in np.asarray(ob.get_flow(eng), float).reshape(-1)] for l_, ob in b.links.items()}
                fl["qo"] = {o_: fr(float(np.asarray(ob.get_flow(b.net, engine=eng, **kw), float).reshape(-1)[0]))
                            for o_, ob in b.origins.items()}
                fl["has"] = True
            except BaseException as e:  # noqa: BLE001
                fl["err"] = errstr(e)
            o["flows"] = fl
            o["ok"] = True
            if want.get("pure", False):
                def changed():
                    ch = []
                    for el_, dd in pristine.items():
                        if el_ not in ic or list(ic[el_]) != keys[el_]:
                            ch.append(f"dict of {b.idof.get(el_)}")
                            continue
                        for k_, v_ in dd.items():
                            a_ = ic[el_][k_]
                            if id(a_) != ids[el_][k_] or a_.shape != v_.shape or not np.array_equal(a_, v_, equal_nan=True):
                                ch.append(f"{k_} of {b.idof.get(el_)}")
                    return ch
                def bufs_changed():
                    return [f"buffer #{i_} behind a strided view" for i_, (bu, cp) in enumerate(b.bufs) if not np.array_equal(bu, cp)]
                ch1 = changed() + bufs_changed()
                # the same dictionary again on the same objects
                b.net.step(init_conditions=ic, engine=np_engine(), **okw, **kw)
                y2, _ = b.read_next()
                ch2 = changed() + bufs_changed()
                # the caller reuses its buffers: the same array objects, refilled in place with other values
                for el_, dd in ic.items():
                    for k_, v_ in dd.items():
                        if amode == 1:
                            v_.flags.writeable = True
                        v_[...] = pristine[el_][k_] * 0.875 + 0.5
                        if amode == 1:
                            v_.flags.writeable = False
                moved = {el_: {k_: v_.copy() for k_, v_ in dd.items()} for el_, dd in ic.items()}
                b.net.step(init_conditions=ic, engine=np_engine(), **okw, **kw)
                y4, _ = b.read_next()
                # ... must equal a fresh network stepped from fresh arrays holding those values
                bf = Built(case, arrays=True)
                fresh = {bf.links.get(b.idof[el_]) or bf.origins.get(b.idof[el_]) or bf.dests.get(b.idof[el_]): dd for el_, dd in moved.items()}
                bf.net.step(init_conditions=fresh, engine=np_engine(), **okw, **kw)
                y5, _ = bf.read_next()
                # and the original values again, in new arrays, on the same (much used) network objects
                b.net.step(init_conditions={el_: {k_: v_.copy() for k_, v_ in dd.items()} for el_, dd in pristine.items()},
                           engine=np_engine(), **okw, **kw)
                y3, _ = b.read_next()
                o["pure"] = {"has": True, "changed": sorted(set(ch1 + ch2)), "y2": y2, "y3": y3, "y4": y4, "y5": y5}
        except BaseException as e:  # noqa: BLE001
            o["err"] = errstr(e)
            o["ok"] = False
        obs["np"] = o
    # ---- the caller feeds the very next-state OBJECTS back as initial conditions, after disturbing them in place
    if want.get("feedback", False) and obs["np"].get("ok"):
        fbk = {"has": False, "pairs": [], "err": ""}
        try:
            b4, eng4 = Built(case, arrays=True), np_engine()
            ic4 = b4.np_init(x, u, d)
            b4.net.step(init_conditions=ic4, engine=eng4, **okw, **kw)
            ic5 = {}
            for el_, dd in ic4.items():
                e5 = dict(dd)
                for k_, a_ in (getattr(el_, "next_states", None) or {}).items():
                    if isinstance(a_, np.ndarray) and a_.ndim >= 1 and a_.flags.writeable and a_.dtype.kind == "f":
                        sign = np.where(np.arange(a_.size).reshape(a_.shape) % 2 == 0, 1.0, -0.2)
                        a_ -= sign * (0.8 * np.abs(a_) + 5.0)      # noise: some entries become negative
                    e5[k_] = a_
                ic5[el_] = e5
            vals5 = {b4.idof[el_]: {k_: np.array(v_, float).copy() for k_, v_ in dd.items()} for el_, dd in ic5.items()}
            b4.net.step(init_conditions=ic5, engine=eng4, **okw, **kw)
            ya_, _ = b4.read_next()
            b5 = Built(case, arrays=True)
            ob5 = lambda i_: b5.links.get(i_) or b5.origins.get(i_) or b5.dests.get(i_)  # noqa: E731
            b5.net.step(init_conditions={ob5(i_): dd for i_, dd in vals5.items()}, engine=np_engine(), **okw, **kw)
            fbk["pairs"].append({"name": "fed-back", "ya": ya_, "yb": b5.read_next()[0]})
            # omitted variables are created by the engine of THIS step (fill 3.0), whatever engine stepped before (0.5)
            from sym_metanet.engines.numpy import Engine as _NE
            part = lambda bb: {el_: dd for el_, dd in bb.np_init(x, u, d).items() if el_ not in bb.links.values()}  # noqa: E731
            b6 = Built(case, arrays=True)
            b6.net.step(engine=_NE(0.5), **okw, **kw)
            b6.net.step(init_conditions=part(b6), engine=_NE(3.0), **okw, **kw)
            b7 = Built(case, arrays=True)
            b7.net.step(init_conditions=part(b7), engine=_NE(3.0), **okw, **kw)
            fbk["pairs"].append({"name": "fill", "ya": b6.read_next()[0], "yb": b7.read_next()[0]})
            fbk["has"] = True
        except BaseException as e:  # noqa: BLE001
            fbk["err"] = errstr(e)
        obs["np"]["feedback"] = fbk
    # ---- the same step without options on inputs clamped at zero by hand (metamorphic partner of C11)
    if want.get("np_plain", False):
        o = {"has": True, "ok": False, "err": "", "y": {"rho": {}, "v": {}, "w": {}}}
        try:
            op = case["opts"]
            pos = lambda on, z: max(0.0, z) if on else z  # noqa: E731
            x2 = {"rho": {l: [pos(op["pid"], z) for z in s_] for l, s_ in x["rho"].items()},
                  "v": {l: [pos(op["pis"], z) for z in s_] for l, s_ in x["v"].items()},
                  "w": {q: pos(op["piq"], z) for q, z in x["w"].items()}}
            b3 = Built(case)
            b3.net.step(init_conditions=b3.np_init(x2, u, d), engine=np_engine(), **kw)
            o["y"], _ = b3.read_next()
            o["ok"] = True
        except BaseException as e:  # noqa: BLE001
            o["err"] = errstr(e)
        obs["np_plain"] = o
    # ---- NumPy with the engine's own variables
    if want.get("np_own", False):
        for vt in ("rand", "empty"):
            st = {"engine": f"numpy[{vt}]", "ok": False, "err": ""}
            try:
                b2 = Built(case)
                b2.net.step(engine=np_engine(vt), **okw, **kw)
                _, shp = b2.read_next()
                st["ok"] = bool(shp)
                if not shp:
                    st["err"] = "next-state shape differs from state shape"
            except BaseException as e:  # noqa: BLE001
                st["err"] = errstr(e)
            obs["steps"].append(st)
    # ---- numeric sensitivities (NumPy), bit-exact comparison
    if want.get("sens", False) and obs["np"].get("ok"):
        try:
            base = dict(flat_next(b))
            for slot in slots_of(case):
                x2, u2, d2 = perturbed(x, u, d, slot)
                b.net.step(init_conditions=b.np_init(x2, u2, d2), engine=np_engine(), **okw, **kw)
                ch = [list(s) for s, z in flat_next(b) if not (z == base[s] or (z != z and base[s] != base[s]))]
                obs["sens"].append({"engine": "numpy", "slot": list(slot), "changed": ch})
        except BaseException as e:  # noqa: BLE001
            obs["steps"].append({"engine": "numpy[sens]", "ok": False, "err": errstr(e)})
    # ---- C13 on this topology: a recording engine is SELECTED, another engine is passed EXPLICITLY
    if want.get("spy", False):
        obs["spy"] = observe_spy(case, x, u, d, okw, kw)
    # ---- CasADi
    rng = random.Random(zlib.crc32(f"{case.get('id')}|17".encode()))
    for spec in want.get("fn", []):
        obs["fn"].append(run_fn(case, spec, x, u, d, rng))
    for sym in want.get("jac", []):
        obs["jac"].append(run_jac(case, sym))
    if want.get("twin", False) and case.get("twin", {}).get("expect", "none") != "none":
        obs["twin"] = observe_twin(case, x, u, d)
    return obs


def pname(p, first_bare):
    """label of a declared parameter; labels are the caller's business: with `first_bare` the first element's symbol
    of a per-element kind is labelled by the bare kind (e.g. 'rho_crit' for L1, 'rho_crit_L2' for L2)"""
    if p["el"] == "*" or (first_bare and p.get("first")):
        return p["kind"]
    return f"{p['kind']}_{p['el']}"


def make_syms(eng, params, first_bare=False):
    syms, decl = {}, []
    seen = set()
    for p in params:
        p["first"] = p["kind"] not in seen and p["el"] != "*"
        seen.add(p["kind"])
        name = pname(p, first_bare)
        s = eng.sym_type.sym(name)
        syms[(p["kind"], p["el"])] = s
        decl.append((name, s, p))
    return syms, decl


def param_value(case, p):
    if p["kind"] in MODEL_PARAMS:
        return num(case["par"][p["kind"]])
    table = case["net"]["origins"] if p["kind"] == "C" else case["net"]["links"]
    els = [p["el"]] if p["el"] != "*" else list(table)
    if not els:
        return 1000.0  # declared but unused (no element carries this parameter)
    return num(table[els[0]][p["kind"]])


class LibraryError(Exception):
    """an exception raised by the library under test (as opposed to a bug of this harness)"""


def lib(fn, *a, **k):
    try:
        return fn(*a, **k)
    except BaseException as e:  # noqa: BLE001
        raise LibraryError(errstr(e)) from e


def run_fn(case, spec, x, u, d, rng):
    sym, compact, more_out = spec["sym"], int(spec["compact"]), bool(spec.get("more_out", False))
    params = spec.get("params") or []
    rec = {"sym": sym, "compact": compact, "more_out": more_out,
           "params": [],
           "ok": False, "err": "", "free": 0, "name_in": [], "size_in": [], "name_out": [], "size_out": [], "calls": [],
           "check_names": True, "pre": spec.get("pre", "none")}
    try:
        eng = lib(cs_engine, sym)
        syms, decl = make_syms(eng, params, first_bare=bool(spec.get("first_bare")))
        rec["params"] = [{"name": name, "kind": p["kind"], "el": p["el"]} for name, _, p in decl]
        b = lib(Built, case, syms)
        kw = par_kwargs(case, syms)
        ic = None
        if rec["pre"] != "none":
            # the caller supplies the initial STATES as expressions g(s) of symbols s it created itself; the function's
            # state arguments are then those symbols, and the step is the step from g(values)
            g = {"fmaxm20": lambda s_: cs.fmax(-20, s_), "affine": lambda s_: 2 * s_ - 3, "ident": lambda s_: s_}[rec["pre"]]
            ic = {}
            flip = rec["pre"] == "ident" or zlib.crc32(f"{case.get('id')}|{sym}{compact}|flip".encode()) % 2 == 1
            if rec["pre"] == "ident":
                # the caller's own symbols ARE the states; an ordinary step was made before on the same network
                lib(b.net.step, engine=eng, **opt_kwargs(case), **kw)
            for l_, ob in b.links.items():
                n_ = int(case["net"]["links"][l_]["N"])
                ic[ob] = {"rho": g(eng.sym_type.sym(f"rho_{ob.name}_c", n_, 1)), "v": g(eng.sym_type.sym(f"v_{ob.name}_c", n_, 1))}
                if flip:
                    ic[ob] = dict(reversed(list(ic[ob].items())))
            for o_, ob in b.origins.items():
                if case["net"]["origins"][o_]["kind"] != "ideal":
                    ic[ob] = {"w": g(eng.sym_type.sym(f"w_{ob.name}_c", 1, 1))}
        if ic is None and zlib.crc32(f"{case.get('id')}|{sym}{compact}|refn".encode()) % 3 == 0:
            # the history before compiling is not part of the function's meaning: step with OTHER parameters, compile
            # (throw-away), then step every element again by hand with the case's parameters, without re-initialising
            nk = par_kwargs(case)     # numbers only: a trial run before the symbolic one
            other_kw = dict(nk, T=nk["T"] * 1.5, tau=nk["tau"] * 0.8)
            lib(b.net.step, engine=eng, **opt_kwargs(case), **other_kw)
            # (symbols inside the elements - symbolic link parameters, capacities - are declared, the trial run's model
            # parameters are numbers)
            trial_pd = {name: s_ for name, s_, p_ in decl if p_["kind"] not in MODEL_PARAMS}
            lib(eng.to_function, b.net, compact=0, more_out=True, parameters=trial_pd or None, **other_kw)
            ok_ = opt_kwargs(case)
            for ob in b.net.origins:
                if ob.has_states:
                    lib(ob.step, net=b.net, engine=eng, positive_next_queue=ok_.get("positive_next_queue", False), **kw)
            for _, _, ob in b.net.links:
                lib(ob.step, net=b.net, engine=eng, positive_next_speed=ok_.get("positive_next_speed", False),
                    positive_next_density=ok_.get("positive_next_density", False), **kw)
            rec["via"] = "recompiled after element-level steps"
        else:
            lib(b.net.step, init_conditions=ic, engine=eng, **opt_kwargs(case), **kw)
        pd = {name: s for name, s, _ in decl}
        other = {k: v for k, v in kw.items() if k not in pd}
        if pd and zlib.crc32(f"{case.get('id')}|{sym}{compact}{more_out}|pd".encode()) % 2:
            # the caller compiles twice from ONE parameters dictionary (first with the flows): its declared order stands
            declared = list(pd)
            lib(eng.to_function, b.net, compact=(compact + 1) % 3, more_out=True, parameters=pd, **other)
            if list(pd) != declared:
                raise LibraryError(f"to_function reordered the caller's parameters dictionary: {declared} -> {list(pd)}")
        F = lib(eng.to_function, b.net, compact=compact, more_out=more_out, parameters=pd or None, **other)
        rec["free"] = len(F.get_free()) if hasattr(F, "get_free") else 0
        rec["name_in"], rec["name_out"] = list(F.name_in()), list(F.name_out())
        real_in = list(rec["name_in"])
        ren = case.get("names") or {}
        if case.get("names_mode"):
            rec["check_names"] = False    # adversarial / equal labels: names cannot be mapped back, positions decide
        elif ren:  # the harness renamed the elements: report names with the abstract ids put back
            def back(n):
                plus = n.endswith("+")
                core = n[:-1] if plus else n
                for a_, c_ in sorted(ren.items(), key=lambda kv: -len(kv[1])):
                    if core.endswith("_" + c_):
                        core = core[: -len(c_)] + a_
                        break
                return core + ("+" if plus else "")
            rec["name_in"], rec["name_out"] = [back(n) for n in rec["name_in"]], [back(n) for n in rec["name_out"]]
        rec["size_in"] = [int(F.size1_in(i) * F.size2_in(i)) for i in range(F.n_in())]
        rec["size_out"] = [int(F.size1_out(i) * F.size2_out(i)) for i in range(F.n_out())]
        npar = (len(decl) if compact <= 0 else 1) if decl else 0
        nmain = max(0, F.n_in() - npar)

        def pvals(scale):
            vals = [param_value(case, p) * scale for _, _, p in decl]
            return [[v] for v in vals] if compact <= 0 else [vals]

        argsets = []
        byname = b.byname(x, u, d)
        if compact <= 0 and not case.get("names_mode") and rec["pre"] == "none" and all(n in byname and len(byname[n]) == rec["size_in"][i]
                                                               for i, n in enumerate(real_in[:nmain])):
            argsets.append((True, [list(map(float, byname[n])) for n in real_in[:nmain]] + (pvals(1.0) if decl else [])))
        for c in range(int(spec.get("generic_calls", 1))):
            lo = -40.0 if rec["pre"] != "none" else 3.0    # expressions supplied by the caller are exercised on both signs
            main = [[rng.uniform(lo, 90.0) for _ in range(rec["size_in"][i])] for i in range(nmain)]
            argsets.append((False, main + (pvals(1.0 if c == 0 else 1.0 + 0.03 * c) if decl else [])))
        for bn, args in argsets:
            outs = lib(F, *[cs.DM(a) if len(a) else cs.DM(0, 1) for a in args])
            if not isinstance(outs, (tuple, list)):
                outs = [outs]
            rec["calls"].append({"byname": bn and not decl, "args": [[fr(z) for z in a] for a in args],
                                 "outs": [[fr(z) for z in np.asarray(o, float).reshape(-1)] for o in outs]})
        rec["ok"] = True
    except LibraryError as e:
        rec["err"] = str(e)
        if os.environ.get("VERIF_DEBUG"):
            traceback.print_exc()
    return rec


def run_jac(case, sym):
    rec = {"sym": sym, "ok": False, "err": "", "nz": []}
    try:
        eng = cs_engine(sym)
        b = Built(case)
        b.net.step(engine=eng, **opt_kwargs(case), **par_kwargs(case))
        F = eng.to_function(b.net, compact=0, more_out=False)
        nz = []
        for oi in range(F.n_out()):
            for ii in range(F.n_in()):
                if F.size1_in(ii) * F.size2_in(ii) == 0:
                    continue
                sp = F.jac_sparsity(oi, ii)
                rows, cols = sp.get_triplet()
                nz += [[oi + 1, r + 1, ii + 1, c + 1] for r, c in zip(rows, cols)]
        rec["nz"], rec["ok"] = nz, True
    except BaseException as e:  # noqa: BLE001
        rec["err"] = errstr(e)
    return rec


def observe_spy(case, x, u, d, okw, kw):
    """for three (selected, explicit) pairs: which primitives the SELECTED engine was asked to compute (must be none),
    the kinds of all variables and next states, and whether the selection survived"""
    import liferun
    from sym_metanet import engines
    out = []
    prev = engines.get_current_engine()
    try:
        for sel, exp in (("sx", "np"), ("np", "mx"), ("mx", "sx")):
            rec = {"selected": sel, "explicit": exp, "ok": False, "err": "", "log": [], "kinds": [], "selection_kept": False}
            spy = liferun.make_spy({"np": np_engine("rand"), "sx": cs_engine("SX"), "mx": cs_engine("MX")}[sel])
            explicit = {"np": np_engine("rand"), "sx": cs_engine("SX"), "mx": cs_engine("MX")}[exp]
            if exp == "np":
                from sym_metanet.engines.numpy import Engine as _NE
                explicit, _decoy = _NE(0.5), _NE(3.0)    # the explicit engine fills what it creates with 0.5; another one exists
            engines.use(spy)
            try:
                b = Built(case)
                ic = b.np_init(x, u, d) if exp == "np" else None
                b.net.step(init_conditions=ic, engine=explicit, **okw, **kw)
                kinds = set()
                for table in (b.links, b.origins, b.dests):
                    for ob in table.values():
                        for grp in (ob.states, ob.actions, ob.disturbances, ob.next_states):
                            for v in (grp or {}).values():
                                kinds.add(liferun.kind_of_value(v))
                kept = engines.get_current_engine() is spy
                if exp == "np":
                    # variables the caller does not supply are created by the EXPLICIT engine, with its own configuration
                    b2 = Built(case)
                    b2.net.step(engine=explicit, **okw, **kw)
                    odd = []
                    for table in (b2.links, b2.origins, b2.dests):
                        for i_, ob in table.items():
                            for grp in (ob.states, ob.actions, ob.disturbances):
                                for k_, v_ in (grp or {}).items():
                                    if not np.all(np.asarray(v_, float) == 0.5):
                                        odd.append(f"{k_} of {i_}")
                    if odd:
                        raise RuntimeError("variables created under an explicit NumPy engine configured to fill with 0.5 hold other values: " + ", ".join(odd[:4]))
                # ... and a step with the explicit engine that FAILS part-way (no sampling time given): the caller catches
                # the error and carries on; the selection must still be its own
                try:
                    Built(case).net.step(engine=explicit, **okw)
                except BaseException:  # noqa: BLE001
                    pass
                kept = kept and engines.get_current_engine() is spy
                rec.update(ok=True, log=sorted(set(spy.log)), kinds=sorted(kinds), selection_kept=kept)
            except BaseException as e:  # noqa: BLE001
                rec["err"] = errstr(e)
                rec["log"] = sorted(set(spy.log))
            out.append(rec)
    finally:
        engines.use(prev)
    return out


def fn_states_by_name(case, sym, x, u, d):
    """next states of an uncompacted function evaluated by argument NAME, keyed by abstract ids"""
    eng = cs_engine(sym)
    b = Built(case)
    b.net.step(engine=eng, **opt_kwargs(case), **par_kwargs(case))
    F = eng.to_function(b.net, compact=0)
    vals = b.byname(x, u, d)
    outs = F(*[cs.DM(vals[n]) if len(vals[n]) else cs.DM(0, 1) for n in F.name_in()])
    outs = dict(zip(F.name_out(), outs if isinstance(outs, (list, tuple)) else [outs]))
    names = case.get("names") or {}
    nm = lambda i: names.get(i, i)  # noqa: E731
    y = {"rho": {}, "v": {}, "w": {}}
    for l in b.links:
        for var in ("rho", "v"):
            y[var][l] = [fr(z) for z in np.asarray(outs[f"{var}_{nm(l)}+"], float).reshape(-1)]
    for o in b.origins:
        if case["net"]["origins"][o]["kind"] != "ideal":
            y["w"][o] = fr(float(np.asarray(outs[f"w_{nm(o)}+"], float).reshape(-1)[0]))
    return y


def observe_twin(case, x, u, d):
    o = {"has": True, "ok": False, "err": "", "np": {"rho": {}, "v": {}, "w": {}}, "fn": []}
    try:
        tw = case["twin"]
        tu = tw["u"]
        tcase = dict(case, net=tw["net"], u={"vctrl": tu.get("vctrl") or {}, "o": tu.get("o") or {}})
        for a, b_ in (("net", "origins"), ("net", "dests")):
            if isinstance(tcase[a].get(b_), list):
                tcase[a] = dict(tcase[a], **{b_: {}})
        _, u2, _ = values(tcase)
        b = Built(tcase)
        b.net.step(init_conditions=b.np_init(x, u2, d), engine=np_engine(), **opt_kwargs(case), **par_kwargs(case))
        o["np"], _ = b.read_next()
        for sym in ("SX", "MX"):
            o["fn"].append({"sym": sym, "base": fn_states_by_name(case, sym, x, u, d),
                            "twin": fn_states_by_name(tcase, sym, x, u2, d)})
        # a second step of both networks: the caller keeps its CONTROL arrays (allocated once, e.g. inf = signs off) and
        # refills the state arrays in place (densities fall, speeds rise); the relation must hold again
        okw, kw = opt_kwargs(case), par_kwargs(case)
        pair = []
        for cs_, uu in ((case, u), (tcase, u2)):
            bb = Built(cs_, arrays=True)
            ic_ = bb.np_init(x, uu, d)
            eng = np_engine()
            bb.net.step(init_conditions=ic_, engine=eng, **okw, **kw)
            # (where the twin's controls were chosen neutral FOR THIS STATE - expectation "equal" - the state stays)
            for dd in ic_.values():
                for k_, a_ in dd.items():
                    if k_ == "rho" and tw["expect"] == "le":
                        a_[...] = a_ * 0.55 + 0.3
                    elif k_ == "v" and tw["expect"] == "le":
                        a_[...] = a_ * 1.05 + 1.0
            bb.net.step(init_conditions=ic_, engine=eng, **okw, **kw)
            pair.append(bb.read_next()[0])
        o["fn"].append({"sym": "np-second-step", "base": pair[0], "twin": pair[1]})
        o["ok"] = True
    except BaseException as e:  # noqa: BLE001
        o["err"] = errstr(e)
        if os.environ.get("VERIF_DEBUG"):
            traceback.print_exc()
    return o


def run_trajectory(case: dict) -> list[dict]:
    """closed loop: a compiled function (with flows) is iterated, feeding every result named `n+` back as the argument
    named `n`; every step becomes one record, so that TLC validates the whole execution step by step.
    case["traj"] = {"steps": K, "sym": "SX"|"MX", "compact": 0|1|2, "demand": optional {origin id: [value per step]}}.
    Level 0 starts from the case's values (arguments by name, demands may vary in time); levels 1 and 2 start from a
    position-only generic vector (the harness knows no layout) with constant controls and disturbances."""
    tr = case["traj"]
    K, sym, compact = int(tr["steps"]), tr.get("sym", "SX"), int(tr.get("compact", 0))
    base = dict(case)
    base.pop("traj")
    base.setdefault("rel", {"kind": "none", "has_base": False})
    base.setdefault("twin", {"expect": "none"})
    eng = lib(cs_engine, sym)
    b = lib(Built, base)
    kw = par_kwargs(base)
    lib(b.net.step, engine=eng, **opt_kwargs(base), **kw)
    F = lib(eng.to_function, b.net, compact=compact, more_out=True, **kw)
    names_in, names_out = list(F.name_in()), list(F.name_out())
    size_in = [int(F.size1_in(i) * F.size2_in(i)) for i in range(F.n_in())]
    size_out = [int(F.size1_out(i) * F.size2_out(i)) for i in range(F.n_out())]
    els = [b.idof.get(el, el.name) for el in b.net.elements]
    x, u, d = values(base)
    if compact <= 0:
        byname = b.byname(x, u, d)
        cur = {n: list(map(float, byname[n])) for n in names_in}
    else:
        rng = random.Random(zlib.crc32(f"{case.get('id')}|23".encode()))
        cur = {n: [rng.uniform(10.0, 70.0) for _ in range(size_in[i])] for i, n in enumerate(names_in)}
    names = base.get("names") or {}
    recs = []
    for k in range(K):
        for o, series in (tr.get("demand") or {}).items():
            cur[f"d_{names.get(o, o)}"] = [float(num(series[k]))]
        args = [cur[n] for n in names_in]
        fed_back = [cur[n] for n in names_in if n + "+" in names_out]
        if any((not np.isfinite(z)) or abs(z) > 1e5 for a in fed_back for z in a):
            break   # the closed loop left every physically meaningful range (position-only generic starts are not
            #         admissible states): beyond this point the comparison would only measure floating-point blow-up
        outs = lib(F, *[cs.DM(a) if len(a) else cs.DM(0, 1) for a in args])
        outs = [np.asarray(o, float).reshape(-1) for o in (outs if isinstance(outs, (list, tuple)) else [outs])]
        fn = {"sym": sym, "compact": compact, "more_out": True, "params": [], "ok": True, "err": "", "free": len(F.get_free()), "check_names": True, "pre": "none",
              "name_in": names_in, "name_out": names_out, "size_in": size_in, "size_out": size_out,
              "calls": [{"byname": False, "args": [[fr(z) for z in a] for a in args], "outs": [[fr(z) for z in o] for o in outs]}]}
        rec = dict(base, id=f"{case['id']}-t{k}", src="trajectory")
        rec["obs"] = {"valid": True, "nmsgs": 0, "valid_err": "", "elements": els, "elements_ok": True, "np": {"has": False},
                      "np_plain": {"has": False}, "steps": [], "fn": [fn], "jac": [], "sens": [], "twin": {"has": False}, "spy": []}
        recs.append(rec)
        for n, o in zip(names_out, outs):   # feed back: the result named n+ succeeds the argument named n
            if n.endswith("+") and n[:-1] in cur:
                cur[n[:-1]] = list(map(float, o))
        if not all(np.isfinite(o).all() for o in outs):
            break
    return recs


def run_case(case: dict) -> dict:
    rec = dict(case)
    rec.setdefault("rel", {"kind": "none", "has_base": False})
    rec.setdefault("twin", {"expect": "none"})
    rec["obs"] = observe(rec)
    return rec

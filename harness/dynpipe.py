"""Dynamics pipeline: cases -> executions of the real library (parallel) -> TLC validation
(Trace_Dyn.tla, parallel shards) -> per-record verdicts."""
from __future__ import annotations

import json
import multiprocessing as mp
import os
import time
from concurrent.futures import ThreadPoolExecutor
from pathlib import Path

import common
from common import MachineryError, NCPU, WORK, printed, run_tlc, tlc_error_excerpt


def _worker(case):
    import dynrun
    if "traj" in case:
        try:
            return dynrun.run_trajectory(case)
        except dynrun.LibraryError as e:   # the library failed while building / compiling the trajectory's function
            rec = dynrun.run_case({k: v for k, v in case.items() if k != "traj"})
            rec["obs"]["steps"].append({"engine": "trajectory", "ok": False, "err": str(e)})
            return rec
    return dynrun.run_case(case)


def execute(cases: list[dict], procs: int = NCPU) -> list[dict]:
    """run every case against the real library ($VERIF_REPO or /repo), in worker processes"""
    if not cases:
        return []
    ctx = mp.get_context("spawn")
    with ctx.Pool(min(procs, max(1, len(cases)))) as pool:
        res = pool.map(_worker, cases, chunksize=max(1, len(cases) // (procs * 8)))
    out = []
    for r in res:   # a trajectory case expands into one record per step
        out += r if isinstance(r, list) else [r]
    return out


def validate(records: list[dict], shards: int = NCPU, tag: str = "dyn", timeout: int = 3600) -> list[dict]:
    """TLC validates every record against the specification; returns one verdict per record (same order)"""
    if not records:
        return []
    shards = max(1, min(shards, (len(records) + 3) // 4))
    d = WORK / f"trace-{tag}-{os.getpid()}-{time.time_ns()}"
    d.mkdir(parents=True, exist_ok=True)
    files = []
    for k in range(shards):
        p = d / f"shard{k}.ndjson"
        with p.open("w") as f:
            for r in records[k::shards]:
                f.write(json.dumps(r) + "\n")
        files.append(p)

    def one(p: Path):
        return run_tlc("Trace_Dyn.tla", cfg="Trace_Dyn.cfg", env={"TRACE_FILE": str(p)}, workers=1, timeout=timeout,
                       tag=p.name)

    import shutil
    try:
        with ThreadPoolExecutor(shards) as ex:
            results = list(ex.map(one, files))
        verdicts = {}
        states = 0
        for p, res in zip(files, results):
            vs = printed(res["out"], "VERDICT")
            n = sum(1 for _ in p.open())
            if not res["ok"] or len(vs) != n:
                keep = WORK / "last-failed-trace.ndjson"
                shutil.copy(p, keep)
                raise MachineryError(f"Trace_Dyn did not produce a verdict for every record of {keep} "
                                     f"(rc={res['rc']}, {len(vs)}/{n}):\n{tlc_error_excerpt(res['out'])}")
            states += res["states"]
            for v in vs:
                verdicts[v["id"]] = v
    finally:
        shutil.rmtree(d, ignore_errors=True)
    out = []
    for r in records:
        if r["id"] not in verdicts:
            raise MachineryError(f"no verdict for record {r['id']}")
        out.append(verdicts[r["id"]])
    validate.last_states = states
    return out


validate.last_states = 0

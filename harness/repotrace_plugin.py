"""pytest plugin (lives in /verif, loaded with -p repotrace_plugin): records every construction / validation call that the
repository's own tests make on any Network, with the graph projected after each call, as traces for Trace_Build.tla.
Only public methods are wrapped (add-only, in memory; the repository is not touched)."""
import functools
import json
import os

_TRACES = {}      # id(net) -> {"id", "calls", "obs"}
_OBJ = {}         # id(obj) -> abstract id
_KEEP = []        # strong references, so that ids are never reused
_COUNT = {}
_DEPTH = [0]
_BAD = set()


def _aid(o):
    import sym_metanet as sm
    if id(o) in _OBJ:
        return _OBJ[id(o)]
    if isinstance(o, sm.Node):
        p = "n"
    elif isinstance(o, sm.Link):
        p = "l"
    elif isinstance(o, sm.MeteredOnRamp):
        p = "r"
    elif isinstance(o, sm.Origin):
        p = "o"
    elif isinstance(o, sm.Destination):
        p = "d"
    else:
        p = "x"
    _COUNT[p] = _COUNT.get(p, 0) + 1
    _OBJ[id(o)] = f"{p}{_COUNT[p]}"
    _KEEP.append(o)
    return _OBJ[id(o)]


def _graph(net):
    G = net.graph
    return {"nodes": [_aid(n) for n in G.nodes],
            "links": [[_aid(u), _aid(v), _aid(G.edges[u, v].get("link"))] for u in G.nodes for v in G.successors(u)],
            "orig": [[_aid(n), _aid(d["origin"])] for n, d in G.nodes.data() if "origin" in d],
            "dest": [[_aid(n), _aid(d["destination"])] for n, d in G.nodes.data() if "destination" in d]}


def _wrap(cls, name, encode):
    orig = getattr(cls, name)

    @functools.wraps(orig)
    def wrapper(self, *a, **k):
        if _DEPTH[0] > 0:
            return orig(self, *a, **k)
        _DEPTH[0] += 1
        res, kind, payload, raised = None, "ok", "", ""
        try:
            try:
                call = encode(*a, **k)
            except Exception:  # noqa: BLE001
                call = None
                _BAD.add(id(self))
            try:
                res = orig(self, *a, **k)
            except BaseException as e:  # noqa: BLE001
                kind, payload, raised = "error", type(e).__name__, type(e).__name__
                raise
            finally:
                if call is not None:
                    t = _TRACES.setdefault(id(self), {"id": f"repo-{len(_TRACES) + 1}", "calls": [], "obs": [], "test": os.environ.get("PYTEST_CURRENT_TEST", "")})
                    _KEEP.append(self)
                    if name == "is_valid":
                        raises = bool(a[0]) if a else bool(k.get("raises", False))
                        if kind == "error" and payload == "InvalidNetworkError":
                            kind, payload, raised = "valid", [False, 1], "InvalidNetworkError"
                        elif kind != "error":
                            ok = bool(res[0])
                            kind, payload = "valid", [ok, len(res[1]) if not raises else (0 if ok else 1)]
                            raised = "none" if ok else "InvalidNetworkError"
                    t["calls"].append(call)
                    t["obs"].append(dict(_graph(self), res=[kind, payload], raised=raised))
            return res
        finally:
            _DEPTH[0] -= 1
    setattr(cls, name, wrapper)


def pytest_configure(config):
    from sym_metanet import Network
    enc = {
        "add_node": lambda node: ["add_node", _aid(node)],
        "add_nodes": lambda nodes: (lambda ns: ["add_nodes", [_aid(n) for n in ns]])(list(nodes)),
        "add_link": lambda node_up, link, node_down: ["add_link", _aid(node_up), _aid(link), _aid(node_down)],
        "add_links": lambda links: ["add_links", [[_aid(a), _aid(b), _aid(c)] for a, b, c in list(links)]],
        "add_origin": lambda origin, node: ["add_origin", _aid(origin), _aid(node)],
        "add_destination": lambda destination, node: ["add_destination", _aid(destination), _aid(node)],
        "add_path": lambda path, origin=None, destination=None: ["add_path", [_aid(p) for p in list(path)], _aid(origin) if origin is not None else "",
                                                                  _aid(destination) if destination is not None else ""],
        "is_valid": lambda raises=False: ["is_valid"],
    }
    for name, e in enc.items():
        _wrap(Network, name, e)


def pytest_sessionfinish(session, exitstatus):
    out = os.environ.get("REPOTRACE_OUT")
    if not out:
        return
    names = {}
    for o in _KEEP:
        if id(o) in _OBJ:
            names[_OBJ[id(o)]] = str(getattr(o, "name", ""))
    traces = [t for k, t in _TRACES.items() if k not in _BAD and t["calls"]]
    with open(out, "w") as f:
        f.write(json.dumps({"names": names}) + "\n")
        for t in traces:
            f.write(json.dumps(t) + "\n")

"""Checks decided through NetBuild.tla: C06 (validity), C08 (lookups), C09 (construction).
Direction A: TLC explores every history of public calls up to a depth over a small universe
(MC_Build.tla), checks the properties on the model and prints every generated transition;
each transition is replayed into the real library and compared.  Direction B: random longer
histories recorded from the real library are validated by TLC (Trace_Build.tla)."""
from __future__ import annotations

import json
import multiprocessing as mp
import random

import common
from common import prune_cache as common_prune
from common import CACHE, MachineryError, NCPU, WORK, printed, run_tlc, spec_hash, tlc_error_excerpt

CFG = """CONSTANTS
 NodeIds = {nodes}
 LinkIds = {links}
 OrigIds = {origs}
 RampIds = {ramps}
 DestIds = {dests}
 NameOf <- MCNameOf
 InvalTable <- MCInvalTable
 UseImplTable = {useimpl}
 InvAddNode = {inv_add_node}
 InvAddNodes = {inv_add_nodes}
 InvAddLink = {inv_add_link}
 InvAddLinks = {inv_add_links}
 InvAddOrigin = {inv_add_origin}
 InvAddDestination = {inv_add_destination}
 InvalImplicitNodes = {inval}
 DestNameWrite = {destwrite}
 PathEndChecked = {pathend}
 MaxDepth = {depth}
 Profile = "{profile}"
 MaxPath = {maxpath}
 EmitOn = TRUE
INIT Init
NEXT Next
VIEW View
CONSTRAINT Bound
ACTION_CONSTRAINT Step
INVARIANT InvCacheCoherent
INVARIANT InvOnlyNodes
INVARIANT InvWellTyped
CHECK_DEADLOCK FALSE
"""
# the repaired library: these are the behaviours the specification prescribes
INTENDED = dict(inval="TRUE", destwrite="FALSE", pathend="TRUE")
NO_IMPL_TABLE = dict(useimpl="FALSE", inv_add_node="{}", inv_add_nodes="{}", inv_add_link="{}", inv_add_links="{}", inv_add_origin="{}",
                     inv_add_destination="{}")


def tla_set(xs):
    return "{" + ", ".join(f'"{x}"' for x in xs) + "}"


UNIVERSES = {
    "small": dict(nodes=["n1", "n2", "n3"], links=["l1", "l2"], origs=["o1", "r1"], ramps=["r1"], dests=["d1", "d2"]),
    "tiny": dict(nodes=["n1", "n2"], links=["l1", "l2"], origs=["o1", "r1"], ramps=["r1"], dests=["d1"]),
    "near4": dict(nodes=["n1", "n2", "n3", "n4"], links=["l1", "l2", "l3", "l4", "l5", "l6"], origs=["o1", "o2", "o3", "o4", "r1", "r2", "r3", "r4"],
                  ramps=["r1", "r2", "r3", "r4"], dests=["d1", "d2", "d3", "d4"]),
    "dense": dict(nodes=["n1", "n2"], links=["l1", "l2", "l3"], origs=["o1", "r1"], ramps=["r1"], dests=["d1"]),
    "valid4": dict(nodes=["n1", "n2", "n3", "n4"], links=["l1", "l2", "l3"], origs=["o1", "r1"], ramps=["r1"], dests=["d1", "d2"]),
}


def transitions(profile: str, universe: str, depth: int, maxpath: int = 3, model: dict | None = None):
    """run MC_Build; returns (list of transition records, info).  Cached: depends on the specification only."""
    model = model or INTENDED
    u = UNIVERSES[universe]
    key = spec_hash("NetBuild.tla", "MC_Build.tla", "DynCases.tla") + f"-{profile}-{universe}-{depth}-{maxpath}-" + "".join(v[0] for v in model.values())
    CACHE.mkdir(exist_ok=True)
    p, meta = CACHE / f"build-{key}.ndjson", CACHE / f"build-{key}.meta.json"
    common_prune("build", key)
    if p.exists() and meta.exists():
        return [json.loads(l) for l in p.open()], json.loads(meta.read_text())
    d = WORK / "cfg"
    d.mkdir(parents=True, exist_ok=True)
    cfg = d / f"MC_Build-{key}.cfg"
    text = CFG.format(nodes=tla_set(u["nodes"]), links=tla_set(u["links"]), origs=tla_set(u["origs"]),
                      ramps=tla_set(u["ramps"]), dests=tla_set(u["dests"]), depth=depth, profile=profile,
                      maxpath=maxpath, **model, **NO_IMPL_TABLE)
    if profile == "dense":   # every history is its own state: hidden implementation state may depend on the whole history
        text = text.replace("VIEW View\n", "VIEW ViewH\n")
    cfg.write_text(text)
    env = {"SHAPES_FILE": ""}
    if profile == "near":
        import dyncases
        sp, _ = dyncases.shapes(*{3: (3, 3), 4: (4, 4), 5: (4, 5)}[maxpath])
        env = {"SHAPES_FILE": str(sp)}
    res = run_tlc("MC_Build.tla", cfg=str(cfg), env=env, workers=1, heap="8g", timeout=3 * 3600, tag=key)
    if res["rc"] not in (0,):
        raise MachineryError("MC_Build: the specification itself violates a property or failed:\n" + tlc_error_excerpt(res["out"], 40))
    tr = printed(res["out"], "TRANS")
    if not tr:
        raise MachineryError("MC_Build printed no transition")
    p.write_text("".join(json.dumps(t) + "\n" for t in tr))
    info = {"states": res["states"], "transitions": res["generated"], "emitted": len(tr), "profile": profile,
            "universe": u, "depth": depth, "wall": res["wall"]}
    meta.write_text(json.dumps(info))
    return tr, info


def _replay_chunk(chunk):
    import buildrun
    return [buildrun.replay_transition(t, read_each=t.get("read_each", False), ask_each=t.get("ask_each", False)) for t in chunk]


def replay_all(trans):
    n = max(1, min(NCPU, len(trans) // 200 + 1))
    chunks = [trans[i::n * 8] for i in range(n * 8)]
    chunks = [c for c in chunks if c]
    ctx = mp.get_context("spawn")
    with ctx.Pool(n) as pool:
        res = pool.map(_replay_chunk, chunks)
    out = [None] * len(trans)
    for ci, (c, r) in enumerate(zip(chunks, res)):
        for j, f in enumerate(r):
            out[ci + j * len(chunks)] = f
    return out


KEY = {"C06": "c06", "C08": "c08", "C09": "c09"}
PLANS = {
    # ("dense", ...): EVERY history of add_link calls (none merged) over 2 nodes / 3 links, all lookups read after every call
    "C08": dict(quick=[("cache", "small", 3, 3), ("dense", "dense", 5, 3)],
                thorough=[("cache", "small", 3, 3), ("cache", "tiny", 4, 3), ("path", "tiny", 2, 4), ("dense", "dense", 5, 3)]),
    # ("pathread", ...): well-formed paths of up to 5 objects that may revisit edges and links, with reads in between
    "C09": dict(quick=[("path", "small", 1, 4), ("cache", "small", 2, 3), ("path", "tiny", 2, 2), ("pathread", "tiny", 3, 5)],
                thorough=[("path", "small", 1, 6), ("path", "small", 2, 3), ("cache", "tiny", 4, 3), ("pathread", "dense", 3, 5), ("pathread", "tiny", 2, 7)]),
    # ("near", universe, extra calls, shape bound): every valid shape <= (3,3)/(4,4)/(4,5) + every single further call
    "C06": dict(quick=[("valid", "small", 3, 3), ("near", "near4", 1, 4)],
                thorough=[("valid", "small", 3, 3), ("near", "near4", 1, 5), ("near", "near4", 2, 3)]),
}


def run(pid: str, tier: str) -> dict:
    viol, drift, states, ntrans, nrep, samples = [], [], 0, 0, 0, []
    graphs = set()
    for profile, universe, depth, maxpath in PLANS[pid][tier]:
        trans, info = transitions(profile, universe, depth, maxpath)
        if profile == "dense":
            for t in trans:
                t["read_each"] = True
        if pid == "C06":   # in every other history the caller asks for validity after EVERY call (what validation memoises is in place)
            import zlib
            for t in trans:
                t["ask_each"] = zlib.crc32(json.dumps(t["h"]).encode()) % 2 == 0
        states += info["states"]
        ntrans += info["transitions"]
        findings = replay_all(trans)
        nrep += len(trans)
        samples += [{"history": t["h"], "expected_result": t["res"]} for t in (trans[:1] + trans[len(trans) // 2:len(trans) // 2 + 1] + trans[-1:])]
        for t, f in zip(trans, findings):
            graphs.add(json.dumps([sorted(t["nodes"]), sorted(map(tuple, t["links"])), t["orig"], t["dest"]]))
            for item in f[KEY[pid]]:
                viol.append({"signature": f"{pid}|{item[0]}|{json.dumps(t['h'][-1])}",
                             "summary": f"{item[0]} after history {json.dumps(t['h'])}: {json.dumps(item[1:])[:300]}",
                             "payload": {"kind": "build", "transition": t, "finding": item}})
            for item in f["drift"][:1]:
                drift.append(f"{item[0]} after {json.dumps(t['h'])}")
    b = trace_validation(pid, tier)
    viol += b["violations"]
    import repotrace
    rt = repotrace.run(pid)
    viol += rt["violations"]
    if rt.get("note"):
        drift.append(rt["note"])
    states += rt["states"]
    ind = None
    if pid == "C08" and tier == "thorough":
        ind, iv = inductive(1)
        viol += iv
        states += ind["states"]
        ntrans += ind["transitions"]
    cov = {"states": max(1, states + b["states"]), "transitions": max(1, ntrans),
           "traces_validated_against_impl": nrep + b["traces"] + rt["traces"], "samples": samples[:6] + b["samples"][:2], "exhaustive": True,
           "explanation": "every history of public construction/read calls up to the depth bound over the small universe explored by TLC "
                          "(invariants CacheCoherent, OnlyNodes, WellTyped; transition assertions ReadFresh, MalformedRejected, "
                          "WellFormedAccepted, GraphIsDescribed, ValidIff) and every generated transition replayed into the real library; "
                          f"plus {b['traces']} recorded random histories validated by TLC (Trace_Build).",
           "runs": [dict(profile=p_, universe=u_, depth=d_, maxpath=m_) for p_, u_, d_, m_ in PLANS[pid][tier]],
           "transitions_replayed": nrep, "distinct_graphs_reached": len(graphs), "recorded_histories": b["traces"],
           "recorded_calls": b["calls"], "inductive_step": ind,
           "repository_test_executions_validated": rt["traces"], "repository_test_calls_validated": rt["calls"]}
    return {"violations": viol, "coverage": cov, "level": "model_checking", "drift": sorted(set(drift))[:10],
            "assumptions": ["TLC; the projection harness/buildrun.py; networkx as ground truth for recomputation",
                            "exhaustive only within the universe and depth stated; random histories beyond"],
            "headline": f"{nrep} transitions replayed ({len(graphs)} distinct graphs), {b['traces']} recorded histories validated, "
                        f"{rt['traces']} executions of the repository's tests validated, {len(viol)} findings"}


def implementation_inval_table():
    """the invalidation lists as the implementation declares them (read from the decorator closures); None if the
    implementation no longer uses that mechanism"""
    import sys
    sys.path.insert(0, str(common.REPO / "src"))
    try:
        from sym_metanet import Network
        out = {}
        for name in ("add_node", "add_nodes", "add_link", "add_links", "add_origin", "add_destination"):
            names, found = set(), False
            for c in getattr(getattr(Network, name), "__closure__", None) or ():
                v = c.cell_contents
                if callable(v) and getattr(v, "__name__", "") == "invalidate_cached_properties":
                    found = True
                    for c2 in v.__closure__ or ():
                        w = c2.cell_contents
                        if isinstance(w, list):
                            names |= {p.attrname for p in w if hasattr(p, "attrname")}
                        elif hasattr(w, "attrname"):
                            names.add(w.attrname)
            if not found:
                return None
            out[name] = sorted(names)
        return out
    except Exception:  # noqa: BLE001
        return None


def inductive(maxedges: int):
    """C08, unbounded in the history length for the 2-node universe: TLC checks the inductive step of CacheCoherent from
    ALL coherent states, with the invalidation table read from the implementation.  A failing step is rebuilt in the
    real library and only counts if the real lookups go stale too."""
    import buildrun
    table = implementation_inval_table()
    d = WORK / "cfg"
    d.mkdir(parents=True, exist_ok=True)
    tab = dict(NO_IMPL_TABLE)
    if table is not None:
        tab = {"useimpl": "TRUE", **{f"inv_{k}": tla_set(v) for k, v in table.items()}}
    u = UNIVERSES["tiny"]
    cfg = d / f"MC_Build-ind-{maxedges}.cfg"
    cfg.write_text(CFG.format(nodes=tla_set(u["nodes"]), links=tla_set(u["links"]), origs=tla_set(u["origs"]), ramps=tla_set(u["ramps"]),
                              dests=tla_set(["d1", "d2"]), depth=1, profile="ind", maxpath=maxedges, **INTENDED, **tab).replace("EmitOn = TRUE", "EmitOn = FALSE"))
    res = run_tlc("MC_Build.tla", cfg=str(cfg), env={"SHAPES_FILE": ""}, workers=NCPU, heap="12g", timeout=75 * 60,
                  tag=f"ind{maxedges}", extra=[])
    info = {"states": res["states"], "transitions": res["generated"], "table_from_implementation": table is not None, "max_edges": maxedges,
            "completed": res["rc"] == 0}
    if res["rc"] == 0:
        return info, []
    if res["rc"] == -9:
        # 9.3*10^7 transitions take 20 minutes on 16 idle cores; on a busy machine the exploration may not finish within
        # the time allowed: that is no verdict (nothing explored failed), the evidence says the step was not completed
        return info, []
    found = printed(res["out"], "INDFAIL")
    if not found:
        raise MachineryError("MC_Build (inductive step) failed:\n" + tlc_error_excerpt(res["out"], 40))
    w = found[0]
    U = buildrun.Universe()
    hist = [["add_node", n] for n in w["nodes"]] + [["add_link", a, l, b] for a, l, b in w["edges"]] \
        + [["add_origin", o, n] for o, n in w["orig"]] + [["add_destination", dd, n] for dd, n in w["dest"]] \
        + [["read", k] for k in w["cached"]] + [w["call"]]
    for c in hist:
        U.call(c)
    allr, rec = U.read_all(), U.recompute()
    stale = [k for k in buildrun.LOOKUPS if not buildrun.same_dict(allr[k], rec[k])]
    if not stale:
        raise MachineryError(f"the model (with the implementation's invalidation table) loses coherence after {hist} but the library does not: model drift")
    return info, [{"signature": f"C08|inductive step|{json.dumps(w['call'])}",
                   "summary": f"lookups {stale} stale after history {json.dumps(hist)} (found by the inductive step of CacheCoherent with the implementation's invalidation table)",
                   "payload": {"kind": "build", "transition": {"h": hist}, "finding": stale}}]


def trace_validation(pid, tier):
    try:
        import buildtrace
    except ImportError:
        return {"violations": [], "states": 0, "traces": 0, "samples": [], "calls": 0}
    return buildtrace.run(pid, tier)

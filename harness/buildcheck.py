"""Checks decided through NetBuild.tla: C06 (validity), C08 (lookups), C09 (construction).
Direction A: TLC explores every history of public calls up to a depth over a small universe
(MC_Build.tla), checks the properties on the model and prints every generated transition;
each transition is replayed into the real library and compared.  Direction B: random longer
histories recorded from the real library are validated by TLC (Trace_Build.tla)."""
from __future__ import annotations

import json
import multiprocessing as mp
import random

import common
from common import CACHE, MachineryError, NCPU, WORK, printed, run_tlc, spec_hash, tlc_error_excerpt

CFG = """CONSTANTS
 NodeIds = {nodes}
 LinkIds = {links}
 OrigIds = {origs}
 RampIds = {ramps}
 DestIds = {dests}
 NameOf <- MCNameOf
 InvalTable <- MCInvalTable
 InvalImplicitNodes = {inval}
 DestNameWrite = {destwrite}
 PathEndChecked = {pathend}
 MaxDepth = {depth}
 Profile = "{profile}"
 MaxPath = {maxpath}
 EmitOn = TRUE
INIT Init
NEXT Next
VIEW View
CONSTRAINT Bound
ACTION_CONSTRAINT Step
INVARIANT InvCacheCoherent
INVARIANT InvOnlyNodes
INVARIANT InvWellTyped
CHECK_DEADLOCK FALSE
"""
# the repaired library: these are the behaviours the specification prescribes
INTENDED = dict(inval="TRUE", destwrite="FALSE", pathend="TRUE")


def tla_set(xs):
    return "{" + ", ".join(f'"{x}"' for x in xs) + "}"


UNIVERSES = {
    "small": dict(nodes=["n1", "n2", "n3"], links=["l1", "l2"], origs=["o1", "r1"], ramps=["r1"], dests=["d1", "d2"]),
    "tiny": dict(nodes=["n1", "n2"], links=["l1", "l2"], origs=["o1", "r1"], ramps=["r1"], dests=["d1"]),
    "near4": dict(nodes=["n1", "n2", "n3", "n4"], links=["l1", "l2", "l3", "l4", "l5", "l6"], origs=["o1", "o2", "o3", "o4", "r1", "r2", "r3", "r4"],
                  ramps=["r1", "r2", "r3", "r4"], dests=["d1", "d2", "d3", "d4"]),
    "valid4": dict(nodes=["n1", "n2", "n3", "n4"], links=["l1", "l2", "l3"], origs=["o1", "r1"], ramps=["r1"], dests=["d1", "d2"]),
}


def transitions(profile: str, universe: str, depth: int, maxpath: int = 3, model: dict | None = None):
    """run MC_Build; returns (list of transition records, info).  Cached: depends on the specification only."""
    model = model or INTENDED
    u = UNIVERSES[universe]
    key = spec_hash("NetBuild.tla", "MC_Build.tla", "DynCases.tla") + f"-{profile}-{universe}-{depth}-{maxpath}-" + "".join(v[0] for v in model.values())
    CACHE.mkdir(exist_ok=True)
    p, meta = CACHE / f"build-{key}.ndjson", CACHE / f"build-{key}.meta.json"
    if p.exists() and meta.exists():
        return [json.loads(l) for l in p.open()], json.loads(meta.read_text())
    d = WORK / "cfg"
    d.mkdir(parents=True, exist_ok=True)
    cfg = d / f"MC_Build-{key}.cfg"
    cfg.write_text(CFG.format(nodes=tla_set(u["nodes"]), links=tla_set(u["links"]), origs=tla_set(u["origs"]),
                              ramps=tla_set(u["ramps"]), dests=tla_set(u["dests"]), depth=depth, profile=profile,
                              maxpath=maxpath, **model))
    env = {"SHAPES_FILE": "", "INVAL_FILE": ""}
    if profile == "near":
        import dyncases
        sp, _ = dyncases.shapes(*{3: (3, 3), 4: (4, 4), 5: (4, 5)}[maxpath])
        env = {"SHAPES_FILE": str(sp), "INVAL_FILE": ""}
    res = run_tlc("MC_Build.tla", cfg=str(cfg), env=env, workers=1, heap="8g", timeout=3 * 3600, tag=key)
    if res["rc"] not in (0,):
        raise MachineryError("MC_Build: the specification itself violates a property or failed:\n" + tlc_error_excerpt(res["out"], 40))
    tr = printed(res["out"], "TRANS")
    if not tr:
        raise MachineryError("MC_Build printed no transition")
    p.write_text("".join(json.dumps(t) + "\n" for t in tr))
    info = {"states": res["states"], "transitions": res["generated"], "emitted": len(tr), "profile": profile,
            "universe": u, "depth": depth, "wall": res["wall"]}
    meta.write_text(json.dumps(info))
    return tr, info


def _replay_chunk(chunk):
    import buildrun
    return [buildrun.replay_transition(t) for t in chunk]


def replay_all(trans):
    n = max(1, min(NCPU, len(trans) // 200 + 1))
    chunks = [trans[i::n * 8] for i in range(n * 8)]
    chunks = [c for c in chunks if c]
    ctx = mp.get_context("spawn")
    with ctx.Pool(n) as pool:
        res = pool.map(_replay_chunk, chunks)
    out = [None] * len(trans)
    for ci, (c, r) in enumerate(zip(chunks, res)):
        for j, f in enumerate(r):
            out[ci + j * len(chunks)] = f
    return out


KEY = {"C06": "c06", "C08": "c08", "C09": "c09"}
PLANS = {
    "C08": dict(quick=[("cache", "small", 3, 3)], thorough=[("cache", "small", 4, 3), ("path", "tiny", 2, 4)]),
    "C09": dict(quick=[("path", "small", 1, 4), ("cache", "small", 2, 3), ("path", "tiny", 2, 2)],
                thorough=[("path", "small", 1, 6), ("path", "small", 2, 3), ("cache", "small", 4, 3)]),
    # ("near", universe, extra calls, shape bound): every valid shape <= (3,3)/(4,4)/(4,5) + every single further call
    "C06": dict(quick=[("valid", "small", 3, 3), ("near", "near4", 1, 4)],
                thorough=[("valid", "small", 4, 3), ("valid", "valid4", 3, 3), ("near", "near4", 1, 5), ("near", "near4", 2, 3)]),
}


def run(pid: str, tier: str) -> dict:
    viol, drift, states, ntrans, nrep, samples = [], [], 0, 0, 0, []
    graphs = set()
    for profile, universe, depth, maxpath in PLANS[pid][tier]:
        trans, info = transitions(profile, universe, depth, maxpath)
        states += info["states"]
        ntrans += info["transitions"]
        findings = replay_all(trans)
        nrep += len(trans)
        samples += [{"history": t["h"], "expected_result": t["res"]} for t in (trans[:1] + trans[len(trans) // 2:len(trans) // 2 + 1] + trans[-1:])]
        for t, f in zip(trans, findings):
            graphs.add(json.dumps([sorted(t["nodes"]), sorted(map(tuple, t["links"])), t["orig"], t["dest"]]))
            for item in f[KEY[pid]]:
                viol.append({"signature": f"{pid}|{item[0]}|{json.dumps(t['h'][-1])}",
                             "summary": f"{item[0]} after history {json.dumps(t['h'])}: {json.dumps(item[1:])[:300]}",
                             "payload": {"kind": "build", "transition": t, "finding": item}})
            for item in f["drift"][:1]:
                drift.append(f"{item[0]} after {json.dumps(t['h'])}")
    b = trace_validation(pid, tier)
    viol += b["violations"]
    cov = {"states": max(1, states + b["states"]), "transitions": max(1, ntrans),
           "traces_validated_against_impl": nrep + b["traces"], "samples": samples[:6] + b["samples"][:2], "exhaustive": True,
           "explanation": "every history of public construction/read calls up to the depth bound over the small universe explored by TLC "
                          "(invariants CacheCoherent, OnlyNodes, WellTyped; transition assertions ReadFresh, MalformedRejected, "
                          "WellFormedAccepted, GraphIsDescribed, ValidIff) and every generated transition replayed into the real library; "
                          f"plus {b['traces']} recorded random histories validated by TLC (Trace_Build).",
           "runs": [dict(profile=p_, universe=u_, depth=d_, maxpath=m_) for p_, u_, d_, m_ in PLANS[pid][tier]],
           "transitions_replayed": nrep, "distinct_graphs_reached": len(graphs), "recorded_histories": b["traces"],
           "recorded_calls": b["calls"]}
    return {"violations": viol, "coverage": cov, "level": "model_checking", "drift": sorted(set(drift))[:10],
            "assumptions": ["TLC; the projection harness/buildrun.py; networkx as ground truth for recomputation",
                            "exhaustive only within the universe and depth stated; random histories beyond"],
            "headline": f"{nrep} transitions replayed ({len(graphs)} distinct graphs), {b['traces']} recorded histories validated, "
                        f"{len(viol)} findings"}


def trace_validation(pid, tier):
    try:
        import buildtrace
    except ImportError:
        return {"violations": [], "states": 0, "traces": 0, "samples": [], "calls": 0}
    return buildtrace.run(pid, tier)

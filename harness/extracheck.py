"""Beyond the listed properties (not a registered check; `check.py EXTRA`): behaviours specified in Elements.tla - automatic
element names, validation of speed-limited segment indices, NumPy engine modes.  Deviations are MODEL-DRIFT (exit 0)."""
from __future__ import annotations

import json
import re
import sys

import common
from common import prune_cache as common_prune
from common import CACHE, MachineryError, WORK, printed, run_tlc, spec_hash, tlc_error_excerpt


def transitions(depth=2):
    key = spec_hash("Elements.tla") + f"-{depth}"
    p = CACHE / f"elements-{key}.ndjson"
    common_prune("elements", key)
    CACHE.mkdir(exist_ok=True)
    if p.exists():
        return [json.loads(l) for l in p.open()]
    d = WORK / "cfg"
    d.mkdir(parents=True, exist_ok=True)
    cfg = d / "Elements-gen.cfg"
    cfg.write_text(f"CONSTANTS MaxDepth = {depth}\n EmitOn = TRUE\nINIT Init\nNEXT Next\nVIEW View\nCONSTRAINT Bound\nACTION_CONSTRAINT Emit\n"
                   "INVARIANT AutoNamesDistinct\nCHECK_DEADLOCK FALSE\n")
    res = run_tlc("Elements.tla", cfg=str(cfg), workers=1, heap="4g", tag=key)
    if res["rc"] != 0:
        raise MachineryError("Elements.tla failed:\n" + tlc_error_excerpt(res["out"]))
    tr = printed(res["out"], "TRANS")
    p.write_text("".join(json.dumps(t) + "\n" for t in tr))
    return tr


def run(pid="EXTRA", tier="quick"):
    sys.path.insert(0, str(common.REPO / "src"))
    import sym_metanet as sm
    from sym_metanet.engines.numpy import Engine as NE
    mk = {"Node": lambda n: sm.Node(name=n), "Link": lambda n: sm.Link(2, 3, 1.0, 180.0, 33.5, 102.0, 1.867, name=n),
          "LinkWithVsl": lambda n: sm.LinkWithVsl(2, 3, 1.0, 180.0, 33.5, 102.0, 1.867, name=n, segments_with_vsl=set(), alpha=0.1),
          "MeteredOnRamp": lambda n: sm.MeteredOnRamp(2000.0, name=n), "SimplifiedMeteredOnRamp": lambda n: sm.SimplifiedMeteredOnRamp(2000.0, name=n),
          "Network": lambda n: sm.Network(name=n)}
    trans = transitions(2 if tier == "quick" else 3)
    drift = []
    for t in trans:
        base = {}
        last = None
        for c in t["h"]:
            if c[0] == "new":
                cl, given = c[1], c[2]
                if cl not in base:      # the class counters are process-wide: learn where this class stands
                    m = re.fullmatch(re.escape(cl) + r"(\d+)", mk[cl](None).name)
                    base[cl] = int(m.group(1)) + 1 if m else None
                    cnt = 0
                else:
                    cnt = sum(1 for d_ in done if d_[0] == "new" and d_[1] == cl and d_[2] == "") if (done := t["h"][:t["h"].index(c)]) is not None else 0
                try:
                    last = ["name", mk[cl](given or None).name]
                except BaseException as e:  # noqa: BLE001
                    last = ["error", type(e).__name__]
            elif c[0] == "vsl":
                try:
                    lk = sm.LinkWithVsl(int(c[1]), 3, 1.0, 180.0, 33.5, 102.0, 1.867, segments_with_vsl=set(c[2]), alpha=0.1)
                    last = ["vsl", list(lk.vsl)]
                except BaseException as e:  # noqa: BLE001
                    last = ["error", type(e).__name__]
            else:
                try:
                    NE(c[1])
                    last = ["ok"]
                except BaseException as e:  # noqa: BLE001
                    last = ["error", type(e).__name__]
        c, exp = t["h"][-1], t["res"]
        if c[0] == "new" and exp[0] == "name" and c[2] == "" and last[0] == "name":
            k = int(exp[1][len(c[1]):])   # the model's number counts from 0 in this history
            want = f"{c[1]}{base[c[1]] + k}" if base.get(c[1]) is not None else None
            if want is None or last[1] != want:
                drift.append(f"automatic name after {t['h']}: got {last[1]}, specification gives {want}")
        elif list(exp) != list(last) and not (c[0] == "new" and c[2] == ""):
            drift.append(f"{c}: got {last}, specification gives {exp}")
    cov = {"states": 1, "transitions": len(trans), "traces_validated_against_impl": len(trans),
           "samples": [trans[0], trans[-1]], "explanation": "behaviours beyond the listed properties (Elements.tla); deviations are MODEL-DRIFT"}
    return {"violations": [], "coverage": cov, "level": "model_checking", "drift": sorted(set(drift))[:10],
            "headline": f"{len(trans)} element-creation histories replayed, {len(set(drift))} deviations"}

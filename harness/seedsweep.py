#!/venv/bin/python
"""Regression of the machinery against the independently seeded changes (not a registered check): for every
seeded/<name>/ apply patch.diff to a scratch copy of the committed repository (under /var/tmp, never /repo), run the
quick check of the property the change was written against with VERIF_REPO pointing at the copy, delete the copy, and
record whether a VIOLATION was raised.  Writes seeded/seeds_last_run.json.

  seedsweep.py [--jobs N] [--only substring]
"""
from __future__ import annotations

import argparse
import json
import os
import shutil
import subprocess
import sys
import tempfile
from concurrent.futures import ThreadPoolExecutor

HERE = os.path.dirname(os.path.abspath(__file__))
VERIF = os.path.dirname(HERE)
SEEDED = os.path.join(VERIF, "seeded")


def one(name: str) -> dict:
    sd = os.path.join(SEEDED, name)
    meta = json.load(open(os.path.join(sd, "meta.json")))
    props = (meta.get("after_strengthening") or {}).get("caught_by") or meta.get("caught_by") or [meta["property"]]
    prop = meta["property"] if meta["property"] in props else props[0]
    d = tempfile.mkdtemp(prefix="verif-seed-", dir="/var/tmp")
    try:
        src = os.environ.get("VP_RUN_REPO") or "/repo"
        tar = subprocess.run(["git", "-C", src, "archive", "HEAD", "src", "tests", "pyproject.toml"], capture_output=True, check=True)
        subprocess.run(["tar", "-x", "-C", d], input=tar.stdout, check=True)
        r = subprocess.run(["git", "apply", "--unsafe-paths", f"--directory={d}", os.path.join(sd, "patch.diff")],
                           cwd="/", capture_output=True, text=True)
        if r.returncode != 0:
            r = subprocess.run(["patch", "-p1", "-d", d, "-i", os.path.join(sd, "patch.diff")], capture_output=True, text=True)
            if r.returncode != 0:
                return {"seed": name, "property": prop, "error": "patch does not apply: " + (r.stderr or r.stdout)[-200:]}
        env = dict(os.environ, VERIF_REPO=d, VERIF_NO_EVIDENCE="1")
        c = subprocess.run(["/venv/bin/python", os.path.join(HERE, "check.py"), prop, "--tier", "quick"], env=env,
                           capture_output=True, text=True, cwd=VERIF)
        nv = sum(1 for l in c.stdout.splitlines() if l.startswith("VIOLATION"))
        return {"seed": name, "property": prop, "exit": c.returncode, "violation_lines": nv, "caught": c.returncode == 1 and nv > 0,
                "last_line": (c.stdout.strip().splitlines() or [""])[-1][:200]}
    finally:
        shutil.rmtree(d, ignore_errors=True)


def main():
    ap = argparse.ArgumentParser()
    ap.add_argument("--jobs", type=int, default=2)
    ap.add_argument("--only", default="")
    a = ap.parse_args()
    names = sorted(n for n in os.listdir(SEEDED) if os.path.isfile(os.path.join(SEEDED, n, "patch.diff")) and a.only in n)
    with ThreadPoolExecutor(a.jobs) as ex:
        res = []
        for r in ex.map(one, names):
            print(f"{'caught' if r.get('caught') else 'MISSED'}  {r['seed']}  {r.get('property')}  {r.get('last_line', r.get('error', ''))[:120]}", flush=True)
            res.append(r)
    if not a.only:
        json.dump(res, open(os.path.join(SEEDED, "seeds_last_run.json"), "w"), indent=1)
    missed = [r["seed"] for r in res if not r.get("caught")]
    print(f"{len(res) - len(missed)}/{len(res)} seeded changes caught by the quick tier" + (f"; missed: {missed}" if missed else ""))
    return 1 if missed else 0


if __name__ == "__main__":
    sys.exit(main())

#!/bin/sh
# recheck.sh <seed name> <props...>: apply seeded/<name>/patch.diff to /repo, run the quick checks, restore /repo straight afterwards
name=$1; shift
out=/verif/seeded/$name
cd /verif
git -C /repo apply $out/patch.diff || { echo "patch does not apply"; exit 2; }
for p in "$@"; do
  VERIF_NO_EVIDENCE=1 /venv/bin/python harness/check.py $p --tier quick > $out/recheck_$p.log 2>&1; r=$?
  echo "$name $p exit=$r $(grep -c '^VIOLATION' $out/recheck_$p.log) violations; $(tail -1 $out/recheck_$p.log | cut -c1-200)"
done
git -C /repo checkout -- . ; git -C /repo status --short | head -3

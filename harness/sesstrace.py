"""Direction B for Session.tla: seeded random user sessions (far longer than the exhaustive bound) executed by the real
library, recorded call by call with the outcome of every call, validated by TLC (Trace_Session.tla); the function compiled
at the end of a session whose next states were all built on the network reached is validated numerically (Trace_Dyn.tla)."""
from __future__ import annotations

import json
import multiprocessing as mp
import os
import random
import shutil
import time
from concurrent.futures import ThreadPoolExecutor

import common
import dynpipe
from common import MachineryError, NCPU, WORK, printed, run_tlc, tlc_error_excerpt

LINKS, ORIGS, DESTS = ["l1", "l2", "l3"], ["o1", "r1", "i1"], ["d1", "c1"]
STARTS = [
    [],
    [["add_path", ["n1", "l1", "n2"], "o1", "d1"]],
    [["add_path", ["n1", "l1", "n2", "l2", "n3"], "o1", "c1"], ["add_origin", "r1", "n2"]],
    [["add_path", ["n1", "l1", "n2"], "i1", "d1"], ["add_link", "n2", "l2", "n1"]],
    [["add_links", [["n1", "l1", "n2"], ["n2", "l2", "n3"], ["n3", "l3", "n1"]]]],
    [["add_path", ["n1", "l1", "n2", "l3", "n3"], "o1", "d1"], ["add_path", ["n2", "l2", "n4"], "", "c1"]],
    [["add_path", ["n1", "l2", "n2", "l1", "n3"], "i1", "c1"]],
    [["add_link", "n1", "l3", "n2"], ["add_origin", "r1", "n1"], ["add_link", "n2", "l1", "n1"]],
]
NODES = ["n1", "n2", "n3", "n4"]


def rand_session(rng: random.Random, n: int):
    calls = [list(c) for c in rng.choice(STARTS)]
    for _ in range(n):
        x = rng.random()
        if x < 0.10:
            u, v = rng.sample(NODES[:3], 2)
            calls.append(["add_link", u, rng.choice(LINKS), v])
        elif x < 0.18:
            calls.append(["add_origin", rng.choice(ORIGS), rng.choice(NODES[:3])])
        elif x < 0.25:
            calls.append(["add_destination", rng.choice(DESTS), rng.choice(NODES[1:])])
        elif x < 0.30:
            calls.append(["is_valid"])
        elif x < 0.48:
            calls.append(["net_step"])
        elif x < 0.53:
            calls.append(["net_step_partial"])
        elif x < 0.58:
            calls.append(["net_step_late_fail"])
        elif x < 0.66:
            calls.append(["init", rng.choice(LINKS + ["o1", "r1", "c1"])])
        elif x < 0.70:
            calls.append(["init_all"])
        elif x < 0.84:
            calls.append(["step", rng.choice(LINKS + ["o1", "r1"])])
        else:
            calls.append(["compile"])
    calls.append(["compile"])
    return calls


def _record(args):
    tid, kind, calls, reached = args
    import sessrun
    w = sessrun.World(kind)
    obs, done = [], []
    last = None
    for c in calls:
        # calls the model only specifies under a condition are only made when the condition holds in the library's own
        # words (the specification decides for itself whether the call was enabled; a disagreement ends the judgement)
        if c[0] in ("net_step", "net_step_partial", "net_step_late_fail", "step"):
            try:
                ok = bool(w.net.is_valid(raises=False)[0]) and any(True for _ in w.net.links)
            except BaseException:  # noqa: BLE001
                ok = False
            if not ok:
                continue
            if c[0] == "net_step_late_fail" and list(w.net.links)[-1][2].N < 2:
                continue
            if c[0] == "step" and w.el[c[1]] not in list(w.net.elements):
                continue
        if c[0] == "init" and w.el[c[1]] not in list(w.net.elements):
            continue
        last = w.call(c)
        o = {"kind": last[0] if last[0] in ("error", "function", "valid") else "ok", "runtime_error": False, "free": 0, "valid": False}
        if last[0] == "valid":
            o["valid"] = bool(last[1])
        if last[0] == "error":
            o["runtime_error"] = isinstance(last[1], RuntimeError)
            o["err"] = f"{type(last[1]).__name__}: {str(last[1])[:100]}"
        if last[0] == "function":
            try:
                o["free"] = len(w.F.get_free())
            except BaseException:  # noqa: BLE001
                o["free"] = -1
        obs.append(o)
        done.append(c)
    rec = {"id": tid, "kind": kind, "calls": done, "obs": obs}
    if reached is not None and last is not None and last[0] == "function":
        rec["dyn"] = sessrun.dyn_record(w, {"h": done, **reached})
        rec["dyn"]["id"] = "sesstrace-" + tid
    return rec


def run(pid: str, tier: str) -> dict:
    seed = common.seed()
    ntr, length = (400, 16) if tier == "quick" else (5000, 40)
    rng = random.Random(seed * 6113 + 11)
    jobs = [(f"st{seed}-{i}", rng.choice(["sx", "mx"]), rand_session(rng, rng.randint(3, length)), None) for i in range(ntr)]
    ctx = mp.get_context("spawn")
    with ctx.Pool(min(NCPU, 12)) as pool:
        traces = pool.map(_record, jobs, chunksize=8)
    shards = max(1, min(NCPU, len(traces) // 25))
    d = WORK / f"strace-{os.getpid()}-{time.time_ns()}"
    d.mkdir(parents=True, exist_ok=True)
    files = []
    for k in range(shards):
        p = d / f"s{k}.ndjson"
        p.write_text("".join(json.dumps(t) + "\n" for t in traces[k::shards]))
        files.append(p)
    try:
        with ThreadPoolExecutor(shards) as ex:
            results = list(ex.map(lambda p: run_tlc("Trace_Session.tla", cfg="Trace_Session.cfg", env={"TRACE_FILE": str(p)}, workers=1,
                                                    tag=p.name), files))
        verdicts, states = {}, 0
        for p, res in zip(files, results):
            vs = printed(res["out"], "VERDICT")
            n = sum(1 for _ in p.open())
            if not res["ok"] or len(vs) != n:
                shutil.copy(p, WORK / "last-failed-strace.ndjson")
                raise MachineryError(f"Trace_Session gave {len(vs)}/{n} verdicts (rc={res['rc']}):\n" + tlc_error_excerpt(res["out"]))
            states += res["states"]
            for v in vs:
                verdicts[v["id"]] = v
    finally:
        shutil.rmtree(d, ignore_errors=True)
    viol, again, judged, notjudged = [], [], 0, 0
    pref = {"C19": "c19.", "C07": "c07.", "C06": "c06."}[pid]
    for (tid, kind, calls, _), t in zip(jobs, traces):
        v = verdicts[t["id"]]
        judged += v["judged"]
        notjudged += len(t["calls"]) - v["judged"]
        for step, clause in v["fails"]:
            if clause.startswith(pref):
                viol.append({"signature": f"{pid}|session|{clause}|{json.dumps(t['calls'][step - 1])}",
                             "summary": f"recorded session {t['id']} ({kind}) step {step} {json.dumps(t['calls'][step - 1])}: {clause}; "
                                        f"session {json.dumps(t['calls'][:step])[:400]}",
                             "payload": {"kind": "sesstrace", "trace": {"id": t["id"], "kind": kind, "calls": t["calls"][:step]}, "clause": clause}})
        if not v["fails"] and v["reached"]["numeric"] and t["obs"] and t["obs"][-1]["kind"] == "function":
            r = v["reached"]
            again.append((tid, kind, t["calls"], {"links": r["links"], "orig": r["orig"], "dest": r["dest"]}))
    nnum = 0
    if again and pid in ("C19", "C07"):
        with ctx.Pool(min(NCPU, 12)) as pool:
            recs = [r["dyn"] for r in pool.map(_record, again, chunksize=4) if "dyn" in r]
        nnum = len(recs)
        for r, v in zip(recs, dynpipe.validate(recs, tag="sesstrace")):
            bad = [x for x in v["fails"] if x[0].startswith("fn.")]
            if bad:
                viol.append({"signature": f"{pid}|session|function does not reflect the network reached|{r['id']}",
                             "summary": f"function compiled at the end of recorded session {r['id']} differs from the specification's step of the network reached: {json.dumps(bad[:3])}",
                             "payload": {"kind": "sesstrace", "record": r["id"], "fails": bad[:10]}})
    return {"violations": viol, "states": states, "traces": len(traces), "calls": sum(len(t["calls"]) for t in traces),
            "judged": judged, "not_judged": notjudged, "numeric": nnum, "samples": [{"recorded_session": traces[0]["calls"][:10]}]}

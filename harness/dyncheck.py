"""Checks decided through the dynamics specification (Metanet.tla / Compile.tla):
TLC enumerates cases (DynCases.tla), the real library executes them, TLC validates
the recorded executions (Trace_Dyn.tla); plus recorded random realistic networks."""
from __future__ import annotations

import json
import random

import common
import dyncases
import dynpipe
import randcases
from common import MachineryError

SX0 = {"sym": "SX", "compact": 0}
MX0 = {"sym": "MX", "compact": 0}


def fns(levels, more_out=(False,), syms=("SX", "MX"), generic_calls=1, params=None):
    return [{"sym": s, "compact": c, "more_out": mo, "generic_calls": generic_calls, "params": params or []}
            for s in syms for c in levels for mo in more_out]


STATE = ("rho", "v", "w")
ALWAYS = ("np.ok", "fn.ok", "step.ok", "jac.ok", "valid", "elements")


def tag_of(f):
    return f[1] if len(f) > 1 and isinstance(f[1], list) else None


def rel_C01(f):
    if f[0] == "np.y":
        return True
    if f[0] == "fn.out":
        return f[1][1] <= 0 and f[1][3] == 0 and f[3][0] in STATE
    return f[0] in ALWAYS


def rel_C02(f):
    return f[0] in ("np.cons", "np.nodecons", "fn.cons", "fn.nodecons") or f[0] in ALWAYS


def rel_C03(f):
    if f[0] == "fn.out":
        return f[3][0] in STATE
    return f[0] == "fn.vs_np" or f[0] in ALWAYS


def rel_C04(f):
    return f[0] in ("fn.name_in", "fn.size_in", "fn.name_out", "fn.size_out", "fn.free", "fn.out") or f[0] in ALWAYS


def rel_C05(f):
    if f[0] == "fn.out":
        return f[3][0] in ("q", "qo")
    return f[0] in ("fn.queue_identity", "fn.flow_identity", "fn.feed_identity") or f[0] in ALWAYS


def rel_C07(f):
    return f[0] in ("np.finite", "fn.finite", "np.shapes", "fn.free") or f[0] in ALWAYS


def rel_C10(f):
    return f[0] in ("jac", "sens") or f[0] in ALWAYS


def rel_C11(f):
    return f[0] in ("np.y", "fn.out") or f[0] in ALWAYS


def rel_C17(f):
    return f[0] == "fn.bounds" or f[0] in ALWAYS


# per property: which cases, what to observe, which clauses decide
PLANS = {
    "C01": dict(rel=rel_C01, want={"np": True, "fn": fns((0,))},
                quick=dict(n=3, m=3, variants=2, generic=1, corners=12, rand=60),
                thorough=dict(n=4, m=5, variants=3, generic=2, corners=12, rand=1500)),
    "C02": dict(rel=rel_C02, want={"np": True, "fn": fns((0,), more_out=(True,))},
                quick=dict(n=3, m=3, variants=2, generic=1, corners=12, rand=60),
                thorough=dict(n=4, m=5, variants=3, generic=2, corners=12, rand=1500)),
    "C03": dict(rel=rel_C03, want={"np": True, "fn": fns((0, 1, 2))},
                quick=dict(n=3, m=3, variants=1, generic=1, corners=12, rand=40),
                thorough=dict(n=4, m=5, variants=2, generic=2, corners=12, rand=1000)),
    "C05": dict(rel=rel_C05, want={"np": False, "fn": fns((0, 1, 2), more_out=(True,))},
                quick=dict(n=3, m=3, variants=1, generic=1, corners=12, rand=40),
                thorough=dict(n=4, m=5, variants=2, generic=2, corners=12, rand=1000)),
    "C07": dict(rel=rel_C07, want={"np": True, "np_own": True, "fn": fns((-1, 0, 1, 2, 3)) + fns((2,), more_out=(True,))},
                quick=dict(n=3, m=3, variants=1, generic=1, corners=12, rand=40),
                thorough=dict(n=4, m=5, variants=2, generic=1, corners=12, rand=600)),
    "C10": dict(rel=rel_C10, want={"np": True, "sens": True, "jac": ["SX", "MX"]},
                quick=dict(n=3, m=3, variants=2, generic=1, corners=0, rand=40),
                thorough=dict(n=4, m=5, variants=4, generic=1, corners=2, rand=600)),
    "C17": dict(rel=rel_C17, want={"np": False, "fn": fns((0,), more_out=(True,))},
                quick=dict(n=3, m=3, variants=2, generic=1, corners=12, rand=60),
                thorough=dict(n=4, m=5, variants=3, generic=2, corners=12, rand=1500)),
}


def summarize(rec):
    net = rec["net"]
    return {"id": rec["id"], "src": rec.get("src"), "point": rec.get("point"),
            "links": {l: [k["up"], k["down"], k["N"], "vsl" if k["ctl"] else "plain"] for l, k in net["links"].items()},
            "origins": {o: k["kind"] for o, k in net["origins"].items()},
            "dests": {d: k["kind"] for d, k in net["dests"].items()},
            "opts": [k for k, v in rec["opts"].items() if v]}


def signature(pid, rec, fails):
    """stable identity of a violation: the failing clause kinds + the local structure they occur at"""
    kinds = sorted({f[0] + (":" + str(f[1][:2]) if tag_of(f) else "") for f in fails})
    if rec.get("src") == "tlc":
        return f"{pid}|shape{rec.get('shape')}|{'+'.join(kinds)}"
    return f"{pid}|{rec['id']}|{'+'.join(kinds)}"


def run(pid: str, tier: str, plan=None, extra_cases=None) -> dict:
    plan = plan or PLANS[pid]
    b = plan[tier]
    seed = common.seed()
    cases, info = dyncases.cases(b["n"], b["m"], seed, b["variants"], b["generic"], b["corners"],
                                 family=plan.get("family", "base"))
    cases = [dict(c, want=plan["want"]) for c in cases]
    rng = random.Random(seed * 7919 + 13)
    rnd = [randcases.rand_case(rng, f"rand-{seed}-{i}", plan["want"], nmax=5 if tier == "quick" else 6,
                               mmax=6 if tier == "quick" else 8) for i in range(b.get("rand", 0))]
    allc = cases + rnd + list(extra_cases or [])
    recs = dynpipe.execute(allc)
    verdicts = dynpipe.validate(recs, tag=pid)
    return assess(pid, plan, recs, verdicts, info, len(rnd))


def assess(pid, plan, recs, verdicts, info, nrand):
    model = [(r["id"], f) for r, v in zip(recs, verdicts) for f in v["fails"] if f[0].startswith("model.")]
    if model:
        raise MachineryError(f"a theorem of the specification failed on generated inputs (specification bug): {model[:3]}")
    viol = []
    for r, v in zip(recs, verdicts):
        fails = [f for f in v["fails"] if plan["rel"](f)]
        if fails:
            viol.append({"signature": signature(pid, r, fails),
                         "summary": f"{r['id']}: " + json.dumps(fails[:4]),
                         "payload": {"kind": "dyn", "case": {k: r[k] for k in r if k != "obs"}, "fails": fails[:40]}})
    sigs = {json.dumps(v["sig"], sort_keys=True) for v in verdicts}
    pats = {json.dumps(p, sort_keys=True) for v in verdicts for p in v["pats"]}
    ncalls = sum(len(f["calls"]) for r in recs for f in r["obs"]["fn"])
    cov = {"states": max(1, info["states"] + dynpipe.validate.last_states),
           "transitions": max(1, info["generated"] + len(recs)),
           "traces_validated_against_impl": len(recs),
           "samples": [summarize(r) for r in (recs[:2] + recs[len(recs) // 2: len(recs) // 2 + 1] + recs[-2:])],
           "exhaustive": True,
           "explanation": (f"TLC enumerated all {info['shapes']} valid shapes with <= {info['shape_bound'][0]} nodes and "
                           f"<= {info['shape_bound'][1]} links (up to renumbering; +8 larger patterns), x {info['variants']} "
                           f"decorations x {info['generic']} generic + {info['corners']} corner points = {info['cases']} cases, "
                           f"plus {nrand} seeded random realistic networks; every case executed by the real library and "
                           "every recorded execution validated by TLC against Metanet.tla/Compile.tla."),
           "tlc_cases": info["cases"], "random_cases": nrand, "shapes": info["shapes"],
           "function_evaluations": ncalls,
           "distinct_branch_signatures": len(sigs), "distinct_local_patterns": len(pats),
           "undefined_cases_skipped_for_numeric_verdict": sum(1 for v in verdicts if not v["defined"])}
    return {"violations": viol, "coverage": cov, "level": "model_checking",
            "assumptions": ["TLC and the Java override Real.class (BigInteger rationals, StrictMath exp/ln/pow) are correct",
                            "numeric agreement is judged at 1e-9 relative to the largest summed term",
                            "continuous input space sampled at generic + corner points; topologies exhaustive within the bound"],
            "headline": f"{len(recs)} executions validated, {len(viol)} with failing clauses, "
                        f"{len(sigs)} branch signatures, {len(pats)} local patterns"}

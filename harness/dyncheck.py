"""Checks decided through the dynamics specification (Metanet.tla / Compile.tla):
TLC enumerates cases (DynCases.tla), the real library executes them, TLC validates
the recorded executions (Trace_Dyn.tla); plus recorded random realistic networks."""
from __future__ import annotations

import json
import random

import common
import dyncases
import dynpipe
import randcases
from common import MachineryError

SX0 = {"sym": "SX", "compact": 0}
MX0 = {"sym": "MX", "compact": 0}


def fns(levels, more_out=(False,), syms=("SX", "MX"), generic_calls=1, params=None, first_bare=False, pre="none"):
    return [{"sym": s, "compact": c, "more_out": mo, "generic_calls": generic_calls, "params": [dict(p) for p in (params or [])],
             "first_bare": first_bare, "pre": pre}
            for s in syms for c in levels for mo in more_out]


PARAM_KINDS = ("rho_crit", "v_free", "a", "C", "tau", "eta", "kappa", "delta", "T")


def param_sets(case, nsets):
    """subsets of the model/link parameters to make symbolic for this case: a singleton, a pair, the full set, ...
    (rotating with the case id so that all singletons and many pairs are exercised over a run)"""
    h = sum(case["id"].encode()) + common.seed()
    kinds = [k for k in PARAM_KINDS if not (k == "delta" and not case["par"]["hasDelta"])]
    links, ramps = list(case["net"]["links"]), [o for o, k in case["net"]["origins"].items() if k["kind"] not in ("ideal", "mainstream")]

    def decl(kind, per_el):
        if kind in ("tau", "eta", "kappa", "delta", "T"):
            return [{"kind": kind, "el": "*"}]
        els = ramps if kind == "C" else links
        if not els:
            return []
        return [{"kind": kind, "el": e} for e in els] if per_el else [{"kind": kind, "el": "*"}]

    sets = []
    k1 = kinds[h % len(kinds)]
    sets.append(decl(k1, per_el=(h // 7) % 2 == 0))
    k2, k3 = kinds[(h // 3) % len(kinds)], kinds[(h // 5 + 1) % len(kinds)]
    if k2 != k3:
        sets.append(decl(k3, True) + decl(k2, False))
    full = []
    for k in (kinds if h % 2 else list(reversed(kinds))):
        full += decl(k, per_el=True)
    sets.append(full)
    return [s_ for s_ in sets if s_][:nsets]


def param_fns(case, levels, more_out, nsets):
    out = []
    for i, ps in enumerate(param_sets(case, nsets)):
        sym = "SX" if (i + sum(case["id"].encode())) % 2 == 0 else "MX"
        out += fns(levels, more_out=more_out, syms=(sym,), generic_calls=2, params=ps,
                   first_bare=(i + sum(case["id"].encode())) % 3 == 0)
    return out


STATE = ("rho", "v", "w")
ALWAYS = ("np.ok", "fn.ok", "step.ok", "jac.ok", "valid", "elements")


def tag_of(f):
    return f[1] if len(f) > 1 and isinstance(f[1], list) else None


def rel_C01(f):
    if f[0] == "np.y":
        return True
    if f[0] == "fn.out":
        return f[1][1] <= 0 and f[1][3] == 0 and f[3][0] in STATE
    return f[0] in ALWAYS


def rel_C02(f):
    return f[0] in ("np.cons", "np.nodecons", "fn.cons", "fn.nodecons") or f[0] in ALWAYS


def rel_C03(f):
    if f[0] == "fn.out":
        return f[3][0] in STATE
    return f[0] == "fn.vs_np" or f[0] in ALWAYS


def rel_C04(f):
    return f[0] in ("fn.name_in", "fn.size_in", "fn.name_out", "fn.size_out", "fn.free", "fn.out") or f[0] in ALWAYS


def rel_C05(f):
    if f[0] == "fn.out":
        return f[3][0] in ("q", "qo")
    # fn.nodecons: at every node, the inflows recovered from the density updates of the leaving links add up to the
    # REPORTED flows of the entering links and origins (the feed identity at nodes that have entering links)
    return f[0] in ("fn.queue_identity", "fn.flow_identity", "fn.feed_identity", "fn.nodecons", "np.flow", "np.flow_ok") or f[0] in ALWAYS


def rel_C07(f):
    return f[0] in ("np.finite", "fn.finite", "np.shapes", "fn.free") or f[0] in ALWAYS


def rel_C10(f):
    return f[0] in ("jac", "sens") or f[0] in ALWAYS


def rel_C11(f):
    return f[0] in ("np.y", "np.meta", "fn.out", "np.feedback", "np.feedback_ok") or f[0] in ALWAYS


def rel_C12(f):
    return f[0] in ("np.repeat", "np.heap", "np.feedback", "np.feedback_ok") or f[0] in ALWAYS


def rel_C13(f):
    return f[0].startswith("spy.") or f[0] in ("valid", "elements")


def rel_C16(f):
    # the parametrised functions AND the plainly numeric one compiled next to them: they must agree (both are compared
    # with the specification evaluated at the same parameter values)
    return f[0] in ("fn.out", "fn.name_in", "fn.size_in", "fn.name_out", "fn.size_out", "fn.free") or f[0] in ALWAYS


def rel_C17(f):
    return f[0] in ("fn.bounds", "np.bounds") or f[0] in ALWAYS


def derive_perm(case, rng):
    """same network, different construction history (order, bulk calls, paths, pre-added nodes) and different names"""
    net = case["net"]
    steps = [["link", k["up"], l, k["down"]] for l, k in net["links"].items()]
    rng.shuffle(steps)
    script = []
    nodes = sorted({k["up"] for k in net["links"].values()} | {k["down"] for k in net["links"].values()})
    if rng.random() < 0.5:
        rng.shuffle(nodes)
        script.append(["nodes", nodes[: rng.randint(1, len(nodes))]])
    i = 0
    while i < len(steps):
        r = rng.random()
        if r < 0.3 and i + 1 < len(steps):
            n = rng.randint(2, len(steps) - i)
            script.append(["links", [st[1:] for st in steps[i:i + n]]])
            i += n
        elif r < 0.6:
            # grow a path from this link as far as the remaining links chain
            path, used = [steps[i][1], steps[i][2], steps[i][3]], [i]
            for j in range(i + 1, len(steps)):
                if steps[j][1] == path[-1] and rng.random() < 0.8:
                    path += [steps[j][2], steps[j][3]]
                    used.append(j)
            rest = [st for j, st in enumerate(steps) if j > i and j not in used]
            steps = steps[: i + 1] + rest
            script.append(["path", path, "", ""])
            i += 1
        else:
            script.append(steps[i])
            i += 1
    od = [["origin", o, k["node"]] for o, k in net["origins"].items()] + [["dest", d, k["node"]] for d, k in net["dests"].items()]
    rng.shuffle(od)
    # origins/destinations may come before the links: the node is then created by add_origin/add_destination
    cut = rng.randint(0, len(od))
    script = od[:cut] + script + od[cut:]
    ids = list(net["links"]) + list(net["origins"]) + list(net["dests"]) + nodes
    alphabet = "abcdefghijklmnopqrstuvwxyzABCDEFGHJKLMNPQRSTUVWXYZ0123456789"
    names, used = {}, set()
    for i_ in ids:
        while True:
            nm = "".join(rng.choice(alphabet) for _ in range(rng.randint(3, 8)))
            if nm not in used and not any(nm.endswith(u_) or u_.endswith(nm) for u_ in used):
                break
        used.add(nm)
        names[i_] = nm
    return dict(case, id=case["id"] + "-perm", build=script, names=names, rel={"kind": "perm", "base_id": case["id"]})


def derive_detour(case, rng):
    """same network reached by a detour: origins, destinations and links first attached ROTATED by one place (where
    there are two or more), the half-built network used (validated, stepped, compiled), then every element attached
    where it belongs (add_origin / add_destination / add_link replace what is there)"""
    net = case["net"]
    rot = lambda xs: xs[1:] + xs[:1]  # noqa: E731
    ls, os_, ds = list(net["links"]), list(net["origins"]), list(net["dests"])
    # links may only swap places with links of the same length (the states keep their shapes)
    byN = {}
    for l in ls:
        byN.setdefault(int(net["links"][l]["N"]), []).append(l)
    lmap = {}
    for grp in byN.values():
        lmap.update(dict(zip(grp, rot(grp))))
    omap, dmap = dict(zip(os_, rot(os_))), dict(zip(ds, rot(ds)))
    script = [["link", net["links"][l]["up"], lmap[l], net["links"][l]["down"]] for l in ls]
    script += [["origin", omap[o], net["origins"][o]["node"]] for o in os_]
    script += [["dest", dmap[d_], net["dests"][d_]["node"]] for d_ in ds]
    script.append(["use", rng.choice(["np", "SX", "MX"])])
    fix = [["link", net["links"][l]["up"], l, net["links"][l]["down"]] for l in ls if lmap[l] != l]
    fix += [["origin", o, net["origins"][o]["node"]] for o in os_ if omap[o] != o]
    fix += [["dest", d_, net["dests"][d_]["node"]] for d_ in ds if dmap[d_] != d_]
    rng.shuffle(fix)
    if fix and rng.random() < 0.5:
        cut = rng.randint(1, len(fix))
        fix = fix[:cut] + [["use", rng.choice(["np", "SX"])]] + fix[cut:]
    return dict(case, id=case["id"] + "-detour", build=script + fix, rel={"kind": "perm", "base_id": case["id"]})


def derive_copy(case, rng):
    """the same network, built, possibly used, then COPIED (deepcopy or pickle round trip): the copy is what is stepped"""
    net = case["net"]
    script = [["link", k["up"], l, k["down"]] for l, k in net["links"].items()]
    script += [["origin", o, k["node"]] for o, k in net["origins"].items()] + [["dest", d_, k["node"]] for d_, k in net["dests"].items()]
    if rng.random() < 0.5:
        script.append(["use", "np"])    # (CasADi symbols cannot be pickled outside a CasADi pickle context: not the library's business)
    script.append(["copy", rng.choice(["deepcopy", "pickle"])])
    return dict(case, id=case["id"] + "-copy", build=script, rel={"kind": "perm", "base_id": case["id"]})


def derive_dupnames(case, rng):
    """every element of a kind carries the same name: names are labels, not identifiers (NumPy observation only)"""
    net = case["net"]
    nodes = sorted({k["up"] for k in net["links"].values()} | {k["down"] for k in net["links"].values()})
    names = {**{l: "link" for l in net["links"]}, **{o: "origin" for o in net["origins"]},
             **{d: "destination" for d in net["dests"]}, **{n: "node" for n in nodes}}
    return dict(case, names=names, rel={"kind": "dupnames", "base_id": case["id"]}, want={"np": True, "fn": []})


def derive_names(case, rng, mode):
    """element names are labels chosen by the user: adversarial ones (a link called 'o_<origin name>', names that look
    like variable names) or the same name for every element of a kind.  Arguments are then only fed by position."""
    net = case["net"]
    nodes = sorted({k["up"] for k in net["links"].values()} | {k["down"] for k in net["links"].values()})
    names = {}
    if mode == "dup":
        names = {**{l: "L" for l in net["links"]}, **{o: "O" for o in net["origins"]}, **{d: "D" for d in net["dests"]}, **{n: "N" for n in nodes}}
    else:
        pool = ["rho", "v", "w", "d", "v_ctrl", "r", "q", "x", "u", "p", "q_o", "rho_v", "x+"]
        rng.shuffle(pool)
        os_ = list(net["origins"])
        for i, o in enumerate(os_):
            names[o] = f"X{i}"
        for i, l in enumerate(net["links"]):
            names[l] = f"o_X{i}" if i < max(1, len(os_)) else pool[i % len(pool)]
        for i, d in enumerate(net["dests"]):
            names[d] = pool[(i + 5) % len(pool)] + "_"
        for i, n in enumerate(nodes):
            names[n] = f"n{i}"
    return dict(case, names=names, names_mode=mode, rel={"kind": "names", "base_id": case["id"]})


def derive_scale(case, rng):
    """turn rates of all links leaving a node multiplied by a common positive factor"""
    from fractions import Fraction
    net = json.loads(json.dumps(case["net"]))
    base = {l: k["beta"] for l, k in net["links"].items()}
    fac = {}
    for l, k in net["links"].items():
        f = fac.setdefault(k["up"], rng.choice([Fraction(2), Fraction(3), Fraction(1, 7), Fraction(37, 100), Fraction(1)]))
        k["beta"] = common.fr(Fraction(k["beta"]) * f)
    return dict(case, id=case["id"] + "-scale", net=net, rel={"kind": "scale", "base_beta": base, "base_id": case["id"]})


def rel_C14(f):
    return f[0] == "rel.y" or f[0] in ALWAYS


def rel_C18(f):
    return f[0] in ("twin.y", "twin.ok") or f[0] in ALWAYS


def example_case():
    """the network of the repository's examples (Hegyi 2004, fig. 6.5): 4+2 segments, mainstream origin, metered on-ramp
    at the junction, free destination, the demand scenario of examples/network_dynamics_in_casadi.py (2.5 h at 10 s)"""
    import numpy as np
    fr = common.fr
    T = 10 / 3600
    time = np.arange(0, 2.5, T)
    d1 = np.interp(time, (2.0, 2.25), (3500, 1000))
    d2 = np.interp(time, (0.0, 0.15, 0.35, 0.5), (500, 1500, 1500, 500))
    lk = lambda up, dn, n: dict(up=up, down=dn, N=n, lam=fr(2), L=fr(1.0), rho_max=fr(180.0), rho_crit=fr(33.5), v_free=fr(102.0),  # noqa: E731
                                a=fr(1.867), beta=fr(1.0), ctl=False, vsl=[], alpha=fr(0.0))
    return {"id": "example-fig6.5", "src": "example",
            "net": {"links": {"L1": lk("N1", "N2", 4), "L2": lk("N2", "N3", 2)},
                    "origins": {"O1": dict(node="N1", kind="mainstream", C=fr(4000.0)), "O2": dict(node="N2", kind="ramp_out", C=fr(2000.0))},
                    "dests": {"D1": dict(node="N3", kind="free")}},
            "build": [["path", ["N1", "L1", "N2", "L2", "N3"], "O1", "D1"], ["origin", "O2", "N2"]],
            "par": dict(T=fr(T), tau=fr(18 / 3600), eta=fr(60.0), kappa=fr(40.0), delta=fr(0.0122), phi=fr(0.0), hasDelta=True, hasPhi=False),
            "opts": dict(randcases.NOOPTS),
            "x": {"rho": {"L1": [fr(z) for z in (22, 22, 22.5, 24)], "L2": [fr(30.0), fr(32.0)]},
                  "v": {"L1": [fr(z) for z in (80, 80, 78, 72.5)], "L2": [fr(66.0), fr(62.0)]}, "w": {"O1": fr(0.0), "O2": fr(0.0)}},
            "u": {"vctrl": {}, "o": {"O1": "inf", "O2": fr(1.0)}},
            "d": {"o": {"O1": fr(float(d1[0])), "O2": fr(float(d2[0]))}, "dest": {}},
            "traj": {"steps": len(time), "sym": "SX", "compact": 0, "demand": {"O1": [fr(float(z)) for z in d1], "O2": [fr(float(z)) for z in d2]}}}


def trajectory_cases(base_cases, tier, rng):
    """closed-loop executions: the repository's example scenario (900 steps) and short feedback runs at every level"""
    out = [example_case()]
    k = 24 if tier == "quick" else 200
    steps = 6 if tier == "quick" else 12
    pick = [c for c in base_cases if c.get("point") in ("generic", "free", None)]
    rng.shuffle(pick)
    for i, c in enumerate(pick[:k]):
        c2 = {kk: v for kk, v in c.items() if kk != "want"}
        out.append(dict(c2, id=f"{c['id']}-traj", traj={"steps": steps, "sym": "SX" if i % 2 else "MX", "compact": i % 3}))
    return out


# per property: which cases, what to observe, which clauses decide
PLANS = {
    "C01": dict(rel=rel_C01, also={"neg": dict(variants=1, generic=2, corners=0)}, want={"np": True, "fn": fns((0,))},
                quick=dict(n=3, m=3, variants=3, generic=1, corners=13, rand=60),
                thorough=dict(n=4, m=5, variants=1, generic=1, corners=13, rand=600)),
    "C02": dict(rel=rel_C02, traj=True, also={"neg": dict(variants=2, generic=2, corners=1)}, want={"np": True, "fn": fns((0,), more_out=(True,))},
                quick=dict(n=3, m=3, variants=2, generic=1, corners=13, rand=60),
                thorough=dict(n=4, m=4, variants=2, generic=1, corners=13, rand=600)),
    "C03": dict(rel=rel_C03, traj=True, also={"opts": dict(variants=1, generic=1, corners=1), "neg": dict(variants=1, generic=1, corners=0)},
                want={"np": True, "fn": fns((0, 1, 2))},
                quick=dict(n=3, m=3, variants=1, generic=1, corners=13, rand=40),
                thorough=dict(n=4, m=4, variants=1, generic=2, corners=13, rand=500)),
    "C05": dict(rel=rel_C05, traj=True, want=lambda c: {"np": True, "fn": fns((0, 1, 2), more_out=(True,))
                                             + fns((0,), more_out=(True,), syms=("SX",), generic_calls=2,
                                                   params=[{"kind": "T", "el": "*"}, {"kind": "C", "el": "*"},
                                                           {"kind": "rho_crit", "el": "*"}])
                                             # per-link symbols, the first one labelled by the bare attribute name
                                             + fns((1,), more_out=(True,), syms=("MX",), generic_calls=2, first_bare=True,
                                                   params=[{"kind": k_, "el": l_} for k_ in ("rho_crit", "rho_max", "a") for l_ in c["net"]["links"]])},
                quick=dict(n=3, m=3, variants=1, generic=1, corners=13, rand=40),
                thorough=dict(n=4, m=4, variants=2, generic=1, corners=3, rand=500)),
    "C07": dict(rel=rel_C07, want={"np": True, "np_own": True, "fn": fns((-1, 0, 1, 2, 3)) + fns((2,), more_out=(True,))},
                quick=dict(n=3, m=3, variants=1, generic=1, corners=13, rand=40),
                thorough=dict(n=4, m=4, variants=2, generic=1, corners=4, rand=400)),
    "C10": dict(rel=rel_C10, derive=("detour",), want={"np": True, "sens": True, "jac": ["SX", "MX"]},
                quick=dict(n=3, m=3, variants=2, generic=1, corners=0, rand=40),
                thorough=dict(n=4, m=4, variants=2, generic=1, corners=2, rand=300)),
    "C04": dict(rel=rel_C04, traj=True, derive=("perm", "names"),
                derived_want={"np": False, "fn": fns((0, 1, 2), more_out=(True,), generic_calls=2) + fns((-1, 3), more_out=(False,), syms=("SX",))}, also={"opts": dict(variants=1, generic=1, corners=0)}, want=lambda c: {"np": False, "fn": fns((-1, 0, 1, 2, 3), more_out=(False, True), generic_calls=2)
                                             # the caller's own symbols as initial conditions ("v" spelled before "rho"), after an ordinary step
                                             + fns((0, 2), more_out=(True,), generic_calls=2, pre="ident")
                                             + param_fns(c, levels=(0, 1, 2), more_out=(True,), nsets=1)},
                quick=dict(n=3, m=3, variants=1, generic=1, corners=0, rand=30, nderive=2),
                thorough=dict(n=4, m=4, variants=2, generic=1, corners=0, rand=200, nderive=1)),
    "C11": dict(rel=rel_C11, family="opts", want={"np": True, "np_plain": True, "feedback": True, "fn": fns((0,)) + fns((2,), syms=("SX",)) + fns((1,), more_out=(True,), syms=("MX",))
                                                              # initial conditions supplied by the caller as EXPRESSIONS of its own symbols
                                                              + fns((0,), syms=("MX",), generic_calls=2, pre="fmaxm20") + fns((1,), syms=("SX",), generic_calls=2, pre="affine")},
                quick=dict(n=3, m=3, variants=1, generic=4, corners=4, rand=0),
                thorough=dict(n=4, m=4, variants=1, generic=6, corners=13, rand=0)),
    "C12": dict(rel=rel_C12, also={"opts": dict(variants=1, generic=1, corners=0), "neg": dict(variants=1, generic=1, corners=0)},
                want={"np": True, "pure": True, "feedback": True, "fn": []},
                quick=dict(n=3, m=3, variants=2, generic=1, corners=3, rand=60),
                thorough=dict(n=4, m=4, variants=2, generic=2, corners=13, rand=600)),
    "C13": dict(rel=rel_C13, want={"np": False, "spy": True, "fn": []},
                quick=dict(n=3, m=3, variants=2, generic=1, corners=1, rand=40),
                thorough=dict(n=4, m=4, variants=2, generic=1, corners=3, rand=400)),
    "C14": dict(rel=rel_C14, derive=("perm", "scale", "dupnames", "detour", "copy"), want={"np": True, "fn": fns((0,)) + fns((1,), syms=("SX",))},
                quick=dict(n=3, m=3, variants=3, generic=1, corners=0, rand=30, nderive=2),
                thorough=dict(n=4, m=4, variants=2, generic=1, corners=1, rand=300, nderive=2)),
    "C18": dict(rel=rel_C18, family="neutral", want={"np": True, "twin": True, "fn": fns((0,))},
                quick=dict(n=3, m=3, variants=3, generic=1, corners=3, rand=0),
                thorough=dict(n=4, m=4, variants=4, generic=2, corners=5, rand=0)),
    "C16": dict(rel=rel_C16, want=lambda c: {"np": False, "fn": param_fns(c, levels=(0, 2), more_out=(False, True), nsets=3)
                                             + fns((0,), more_out=(True,), syms=("SX" if sum(c["id"].encode()) % 2 else "MX",))},
                quick=dict(n=3, m=3, variants=3, generic=1, corners=1, rand=30),
                thorough=dict(n=4, m=4, variants=2, generic=1, corners=3, rand=300)),
    # (the detour only matters for C17 where an origin can first sit on ANOTHER origin's node: two or more origins)
    "C17": dict(rel=rel_C17, traj=True, derive=("detour",), derive_if=lambda c: len(c["net"]["origins"]) >= 2, want={"np": True, "fn": fns((0,), more_out=(True,))},
                quick=dict(n=3, m=3, variants=2, generic=1, corners=13, rand=60),
                thorough=dict(n=4, m=5, variants=1, generic=1, corners=13, rand=600)),
}


def regression_cases(pid):
    """witnesses of repaired defects that the generated cases of the quick bound do not contain (findings/*.json whose
    property is this one): a repaired defect must be reported again if it ever returns"""
    out = []
    for f in sorted((common.VERIF / "findings").glob("D*.json")):
        try:
            r = json.loads(f.read_text())
        except ValueError:
            continue
        if r.get("property") == pid and r.get("kind", "dyn") == "dyn" and isinstance(r.get("case"), dict) and "want" in r["case"]:
            c = dict(r["case"], id=f"regression-{f.stem}", src="regression")
            c["rel"] = {"kind": "none", "has_base": False}
            out.append(c)
    return out


def summarize(rec):
    net = rec["net"]
    return {"id": rec["id"], "src": rec.get("src"), "point": rec.get("point"),
            "links": {l: [k["up"], k["down"], k["N"], "vsl" if k["ctl"] else "plain"] for l, k in net["links"].items()},
            "origins": {o: k["kind"] for o, k in net["origins"].items()},
            "dests": {d: k["kind"] for d, k in net["dests"].items()},
            "opts": [k for k, v in rec["opts"].items() if v]}


def signature(pid, rec, fails):
    """stable identity of a violation: the failing clause kinds + the local structure they occur at"""
    kinds = sorted({f[0] + (":" + str(f[1][:2]) if tag_of(f) else "") for f in fails})
    if rec.get("src") == "tlc":
        return f"{pid}|shape{rec.get('shape')}|{'+'.join(kinds)}"
    return f"{pid}|{rec['id']}|{'+'.join(kinds)}"


def run(pid: str, tier: str, plan=None, extra_cases=None) -> dict:
    plan = plan or PLANS[pid]
    b = plan[tier]
    seed = common.seed()
    cases, info = dyncases.cases(b["n"], b["m"], seed, b["variants"], b["generic"], b["corners"],
                                 family=plan.get("family", "base"))
    wantf = plan["want"] if callable(plan["want"]) else (lambda c: plan["want"])
    for fam, fb in (plan.get("also") or {}).items():   # slices of other case families (negative inputs, options)
        more, _ = dyncases.cases(b["n"], b["m"], seed, fb.get("variants", 1), fb.get("generic", 1), fb.get("corners", 0), family=fam)
        cases = cases + more
    cases = [dict(c, want=wantf(c)) for c in cases]
    rng = random.Random(seed * 7919 + 13)
    rnd = [randcases.rand_case(rng, f"rand-{seed}-{i}", None, nmax=5 if tier == "quick" else 6,
                               mmax=6 if tier == "quick" else 8) for i in range(b.get("rand", 0))]
    rnd = [dict(c, want=wantf(c)) for c in rnd]
    base = cases + rnd
    if plan.get("derive"):
        derived = []
        for c in base:
            if plan.get("derive_if") and not plan["derive_if"](c):
                continue
            for k in range(b.get("nderive", 1)):
                if "perm" in plan["derive"]:
                    derived.append(dict(derive_perm(c, rng), id=f"{c['id']}-perm{k}"))
                if "detour" in plan["derive"] and k == 0:
                    derived.append(dict(derive_detour(c, rng), id=f"{c['id']}-detour"))
                if "copy" in plan["derive"] and k == 0:
                    derived.append(dict(derive_copy(c, rng), id=f"{c['id']}-copy"))
                if "scale" in plan["derive"]:
                    derived.append(dict(derive_scale(c, rng), id=f"{c['id']}-scale{k}"))
                if "dupnames" in plan["derive"] and k == 0:
                    derived.append(dict(derive_dupnames(c, rng), id=f"{c['id']}-dup"))
                if "names" in plan["derive"] and k == 0:
                    derived.append(dict(derive_names(c, rng, "adv"), id=f"{c['id']}-advnames"))
                    derived.append(dict(derive_names(c, rng, "dup"), id=f"{c['id']}-samenames"))
        if plan.get("derived_want"):
            derived = [dict(c, want=plan["derived_want"]) for c in derived]
        base = base + derived
    if plan.get("traj"):
        base = base + trajectory_cases(cases + rnd, tier, rng)
    allc = base + list(extra_cases or []) + regression_cases(pid)
    recs = dynpipe.execute(allc)
    byid = {r["id"]: r for r in recs}
    for r in recs:  # related networks carry the next states the base network produced
        if r["rel"]["kind"] != "none":
            base_ = byid.get(r["rel"].get("base_id"))
            ok = bool(base_ and base_["obs"]["np"].get("ok"))
            r["rel"]["has_base"] = ok
            r["rel"]["base_y"] = base_["obs"]["np"]["y"] if ok else {"rho": {}, "v": {}, "w": {}}
    verdicts = dynpipe.validate(recs, tag=pid)
    return assess(pid, plan, recs, verdicts, info, len(rnd))


def assess(pid, plan, recs, verdicts, info, nrand):
    model = [(r["id"], f) for r, v in zip(recs, verdicts) for f in v["fails"] if f[0].startswith("model.")]
    if model:
        raise MachineryError(f"a theorem of the specification failed on generated inputs (specification bug): {model[:3]}")
    viol = []
    for r, v in zip(recs, verdicts):
        fails = [f for f in v["fails"] if plan["rel"](f)]
        if fails:
            viol.append({"signature": signature(pid, r, fails),
                         "summary": f"{r['id']}: " + json.dumps(fails[:4]),
                         "payload": {"kind": "dyn", "case": {k: r[k] for k in r if k != "obs"}, "fails": fails[:40]}})
    sigs = {json.dumps(v["sig"], sort_keys=True) for v in verdicts}
    pats = {json.dumps(p, sort_keys=True) for v in verdicts for p in v["pats"]}
    ncalls = sum(len(f["calls"]) for r in recs for f in r["obs"]["fn"])
    cov = {"states": max(1, info["states"] + dynpipe.validate.last_states),
           "transitions": max(1, info["generated"] + len(recs)),
           "traces_validated_against_impl": len(recs),
           "samples": [summarize(r) for r in (recs[:2] + recs[len(recs) // 2: len(recs) // 2 + 1] + recs[-2:])],
           "exhaustive": False, "topologies_exhaustive_within_bound": True,
           "explanation": (f"TLC enumerated all {info['shapes']} valid shapes with <= {info['shape_bound'][0]} nodes and "
                           f"<= {info['shape_bound'][1]} links (up to renumbering; +15 larger patterns), x {info['variants']} "
                           f"decorations x {info['generic']} generic + {info['corners']} corner points = {info['cases']} cases, "
                           f"plus {nrand} seeded random realistic networks; every case executed by the real library and "
                           "every recorded execution validated by TLC against Metanet.tla/Compile.tla."),
           "tlc_cases": info["cases"], "random_cases": nrand, "shapes": info["shapes"],
           "function_evaluations": ncalls,
           "closed_loop_steps_validated": sum(1 for r in recs if r.get("src") == "trajectory"),
           "related_networks_compared": sum(1 for r in recs if r.get("rel", {}).get("kind", "none") != "none"),
           "distinct_branch_signatures": len(sigs), "distinct_local_patterns": len(pats),
           "undefined_cases_skipped_for_numeric_verdict": sum(1 for v in verdicts if not v["defined"])}
    return {"violations": viol, "coverage": cov, "level": "model_checking",
            "assumptions": ["TLC and the Java override Real.class (BigInteger rationals, StrictMath exp/ln/pow) are correct",
                            "numeric agreement is judged at 1e-9 relative to the largest summed term",
                            "continuous input space sampled at generic + corner points; topologies exhaustive within the bound"],
            "headline": f"{len(recs)} executions validated, {len(viol)} with failing clauses, "
                        f"{len(sigs)} branch signatures, {len(pats)} local patterns"}

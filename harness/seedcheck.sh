#!/bin/sh
# seedcheck.sh <name> <worktree> <props...> : confirm a seeded change independently, run our checks against it, file it under seeded/<name>/
# 1. worktree with the change: repository tests pass; demo fails.  2. change reverted: demo passes.
# 3. patch applied to /repo: quick checks of <props> must report a VIOLATION; /repo restored straight afterwards.
name=$1; wt=$2; shift 2
out=/verif/seeded/$name; mkdir -p $out
cp $wt/_seed/patch.diff $wt/_seed/demo.py $out/ 2>/dev/null
cp $wt/_seed/meta.json $out/agent_meta.json 2>/dev/null
cd $wt
git stash -q 2>/dev/null; git checkout -q -- src 2>/dev/null
PYTHONPATH=$wt/src /venv/bin/python _seed/demo.py > $out/demo_unchanged.log 2>&1; d0=$?
git apply _seed/patch.diff || { echo "patch does not apply"; exit 2; }
PYTHONPATH=$wt/src /venv/bin/python _seed/demo.py > $out/demo_changed.log 2>&1; d1=$?
tests=$(PYTHONPATH=$wt/src /venv/bin/python -m pytest -q -p no:cacheprovider --timeout=900 --ignore=tests/test_examples.py tests 2>&1 | tail -1)
echo "demo unchanged exit=$d0 changed exit=$d1; tests with change: $tests"
cd /verif
git -C /repo apply $out/patch.diff || { echo "patch does not apply to /repo"; exit 2; }
res=""
for p in "$@"; do
  VERIF_NO_EVIDENCE=1 /venv/bin/python harness/check.py $p --tier quick > $out/check_$p.log 2>&1; r=$?
  n=$(grep -c '^VIOLATION' $out/check_$p.log)
  echo "  $p: exit=$r violations=$n  $(tail -1 $out/check_$p.log | cut -c1-160)"
  res="$res \"$p\": {\"exit\": $r, \"violation_lines\": $n},"
done
git -C /repo checkout -- . ; git -C /repo status --short | head -3
printf '{"demo_exit_unchanged": %s, "demo_exit_changed": %s, "tests_with_change": "%s", "checks": {%s}}\n' "$d0" "$d1" "$tests" "${res%,}" > $out/confirm.json

"""Replay of Session.tla transitions into the real library: one user session that builds a network through the public
construction API, validates it, steps it (as a whole, half-way, element by element), keeps building, and compiles at
any point.  Observations: outcome classes, which elements have variables / next states, free symbols of functions;
numeric values of compiled functions are recorded as dynamics records and validated by TLC (Trace_Dyn.tla)."""
from __future__ import annotations

import os
import sys
import zlib

REPO = os.environ.get("VERIF_REPO", "/repo")
sys.path.insert(0, os.path.join(REPO, "src"))

import casadi as cs  # noqa: E402
import numpy as np  # noqa: E402

from common import fr  # noqa: E402

np.seterr(all="ignore")
import warnings  # noqa: E402
warnings.simplefilter("ignore")

PAR = dict(T=1 / 360, tau=1 / 200, eta=60.0, kappa=40.0, delta=0.0122)
LINKP = {"l1": dict(N=2, lam=3, L=1.0, rho_max=180.0, rho_crit=33.5, v_free=102.0, a=1.867, beta=1.0, ctl=False, vsl=[], alpha=0.0),
         "l2": dict(N=2, lam=2, L=0.75, rho_max=170.0, rho_crit=30.0, v_free=110.0, a=2.0, beta=0.5, ctl=True, vsl=[1], alpha=0.1),
         "l3": dict(N=1, lam=4, L=1.25, rho_max=190.0, rho_crit=36.25, v_free=95.0, a=1.5, beta=2.0, ctl=False, vsl=[], alpha=0.0)}
ORIGK = {"o1": ("mainstream", 0.0), "r1": ("ramp_out", 2000.0), "i1": ("ideal", 0.0)}
DESTK = {"d1": "free", "c1": "congested"}
VALS = {"l1": {"rho": [22.0, 25.5], "v": [80.0, 78.25]}, "l3": {"rho": [31.0], "v": [66.5]},
        "l2": {"rho": [30.0, 28.0], "v": [70.0, 75.0], "v_ctrl": [60.0]},
        "o1": {"w": [12.0], "v_ctrl": [90.0], "d": [2500.0]}, "r1": {"w": [30.0], "r": [0.6], "d": [700.0]},
        "c1": {"d": [20.0]}}
UNAME = {"o1": "v_ctrl", "r1": "r"}


class World:
    def __init__(self, kind: str):
        import sym_metanet as sm
        from sym_metanet.engines.casadi import Engine as CE
        self.sm, self.kind = sm, kind
        self.eng = CE("SX" if kind == "sx" else "MX")
        lk = lambda i: (LINKP[i]["N"], LINKP[i]["lam"], LINKP[i]["L"], LINKP[i]["rho_max"], LINKP[i]["rho_crit"],  # noqa: E731
                        LINKP[i]["v_free"], LINKP[i]["a"])
        self.el = {"l1": sm.Link(*lk("l1"), turnrate=1.0, name="l1"),
                   "l2": sm.LinkWithVsl(*lk("l2"), turnrate=0.5, name="l2", segments_with_vsl={0}, alpha=0.1),
                   "l3": sm.Link(*lk("l3"), turnrate=2.0, name="l3"),
                   "o1": sm.MainstreamOrigin(name="o1"), "r1": sm.MeteredOnRamp(2000.0, "out", name="r1"), "i1": sm.Origin(name="i1"),
                   "d1": sm.Destination(name="d1"), "c1": sm.CongestedDestination(name="c1")}
        self.nodes = {f"n{i}": sm.Node(name=f"n{i}") for i in (1, 2, 3, 4)}
        self.net = sm.Network(name="session")
        self.F = None

    def g(self, i):
        return self.nodes[i] if i in self.nodes else self.el[i]

    def call(self, c):
        op, net, g = c[0], self.net, self.g
        try:
            if op == "add_link":
                net.add_link(g(c[1]), g(c[2]), g(c[3]))
            elif op == "add_links":
                net.add_links([(g(a), g(b), g(d)) for a, b, d in c[1]])
            elif op == "add_origin":
                net.add_origin(g(c[1]), g(c[2]))
            elif op == "add_destination":
                net.add_destination(g(c[1]), g(c[2]))
            elif op == "add_path":
                net.add_path([g(i) for i in c[1]], origin=g(c[2]) if c[2] else None, destination=g(c[3]) if c[3] else None)
            elif op == "is_valid":
                return ("valid", bool(net.is_valid(raises=False)[0]))
            elif op == "net_step":
                net.step(engine=self.eng, **PAR)
            elif op == "net_step_partial":
                net.step(engine=self.eng, T=PAR["T"])      # the caller forgot the model parameters
            elif op == "net_step_late_fail":
                # the caller supplies a density of the wrong size for the link stepped last
                last = list(net.links)[-1][2]
                sym = cs.SX if self.kind == "sx" else cs.MX
                net.step(init_conditions={last: {"rho": sym.sym("rho_wrong_size", last.N + 1, 1)}}, engine=self.eng, **PAR)
            elif op == "init":
                self.el[c[1]].init_vars(engine=self.eng)
            elif op == "init_all":
                for e in list(net.elements):
                    e.init_vars(engine=self.eng)
            elif op == "step":
                self.el[c[1]].step(net=net, engine=self.eng, **PAR)
            elif op == "compile":
                self.F = self.eng.to_function(net, compact=0, more_out=False)
                return ("function", self.F)
            else:
                raise KeyError(op)
            return ("ok", None)
        except KeyError:
            raise
        except BaseException as e:  # noqa: BLE001
            return ("error", e)

    def observe(self, ids):
        o = {"vars": {}, "nxt": {}}
        for i in ids:
            e = self.el[i]
            o["vars"][i] = any(g is not None for g in (e.states, e.actions, e.disturbances))
            o["nxt"][i] = bool(e.next_states)
        return o


def dyn_record(w: World, t: dict):
    """a dynamics record (format of Trace_Dyn) for the function compiled at the end of history t, on the graph the
    specification says the session has reached; evaluated by argument name"""
    links, origins, dests = {}, {}, {}
    for u, v, l in t["links"]:
        p = LINKP[l]
        links[l] = dict(up=u, down=v, N=p["N"], lam=fr(p["lam"]), L=fr(p["L"]), rho_max=fr(p["rho_max"]), rho_crit=fr(p["rho_crit"]),
                        v_free=fr(p["v_free"]), a=fr(p["a"]), beta=fr(p["beta"]), ctl=p["ctl"], vsl=p["vsl"], alpha=fr(p["alpha"]))
    for n, o in t["orig"]:
        origins[o] = dict(node=n, kind=ORIGK[o][0], C=fr(ORIGK[o][1]))
    for n, d_ in t["dest"]:
        dests[d_] = dict(node=n, kind=DESTK[d_])
    queued = [o for o in origins if ORIGK[o][0] != "ideal"]
    x = {"rho": {i: [fr(z) for z in VALS[i]["rho"]] for i in links}, "v": {i: [fr(z) for z in VALS[i]["v"]] for i in links},
         "w": {o: fr(VALS[o]["w"][0]) for o in queued}}
    u = {"vctrl": {i: [fr(z) for z in VALS[i]["v_ctrl"]] for i in links if LINKP[i]["ctl"]},
         "o": {o: fr(VALS[o][UNAME[o]][0]) for o in queued}}
    d = {"o": {o: fr(VALS[o]["d"][0]) for o in queued}, "dest": {k: fr(VALS[k]["d"][0]) for k in dests if DESTK[k] == "congested"}}
    byname = {}
    for i in links:
        byname[f"rho_{i}"], byname[f"v_{i}"] = VALS[i]["rho"], VALS[i]["v"]
        if LINKP[i]["ctl"]:
            byname[f"v_ctrl_{i}"] = VALS[i]["v_ctrl"]
    for o in queued:
        byname[f"w_{o}"], byname[f"{UNAME[o]}_{o}"], byname[f"d_{o}"] = VALS[o]["w"], VALS[o][UNAME[o]], VALS[o]["d"]
    for k in dests:
        if DESTK[k] == "congested":
            byname[f"d_{k}"] = VALS[k]["d"]
    F = w.F
    fn = {"sym": w.kind.upper(), "compact": 0, "more_out": False, "params": [], "ok": False, "err": "", "free": 0, "check_names": True, "pre": "none",
          "name_in": list(F.name_in()), "name_out": list(F.name_out()),
          "size_in": [int(F.size1_in(i) * F.size2_in(i)) for i in range(F.n_in())],
          "size_out": [int(F.size1_out(i) * F.size2_out(i)) for i in range(F.n_out())], "calls": []}
    try:
        fn["free"] = len(F.get_free())
        if all(n in byname for n in fn["name_in"]):
            args = [list(map(float, byname[n])) for n in fn["name_in"]]
            outs = F(*[cs.DM(a) for a in args])
            outs = outs if isinstance(outs, (list, tuple)) else [outs]
            fn["calls"].append({"byname": False, "args": [[fr(z) for z in a] for a in args],
                                "outs": [[fr(z) for z in np.asarray(o, float).reshape(-1)] for o in outs]})
        fn["ok"] = True
    except BaseException as e:  # noqa: BLE001
        fn["err"] = f"{type(e).__name__}: {str(e)[:150]}"
    return {"id": "sess-" + w.kind + "-" + format(zlib.crc32(repr(t["h"]).encode()), "08x") + f"-{len(t['h'])}", "src": "session", "net": {"links": links, "origins": origins, "dests": dests},
            "par": dict(T=fr(PAR["T"]), tau=fr(PAR["tau"]), eta=fr(PAR["eta"]), kappa=fr(PAR["kappa"]), delta=fr(PAR["delta"]), phi=fr(0.0),
                        hasDelta=True, hasPhi=False),
            "opts": dict(pis=False, pid=False, piq=False, pns=False, pnd=False, pnq=False), "x": x, "u": u, "d": d,
            "rel": {"kind": "none", "has_base": False}, "twin": {"expect": "none"},
            "obs": {"valid": True, "nmsgs": 0, "valid_err": "", "elements": [el.name for el in w.net.elements], "elements_ok": True,
                    "np": {"has": False}, "np_plain": {"has": False}, "steps": [], "fn": [fn], "jac": [], "sens": [],
                    "twin": {"has": False}, "spy": []}}


def replay_transition(t: dict) -> dict:
    out = {"c19": [], "c07": [], "c06": [], "drift": [], "dyn": None}
    kind = "sx" if zlib.crc32(repr(t["h"]).encode()) % 2 == 0 else "mx"
    w = World(kind)
    last = None
    for c in t["h"]:
        last = w.call(c)
    c, exp = t["h"][-1], t["res"]
    why = {k: v for k, v in t["why"].items() if v}
    if c[0] == "compile":
        if exp[0] == "error":
            if last[0] != "error":
                out["c19"].append([f"an unready network was compiled (specification: {why})", c])
            elif not isinstance(last[1], RuntimeError):
                out["c19"].append([f"compiling an unready network raised {type(last[1]).__name__} instead of a runtime error", c])
        elif last[0] == "error":
            if exp[2]:   # valid, stepped as a whole, untouched since (C07)
                out["c07"].append([f"a valid network stepped as a whole does not compile: {type(last[1]).__name__}: {str(last[1])[:100]}", c])
            else:
                out["drift"].append([f"compile raised {type(last[1]).__name__} on a network the specification calls ready", c])
        else:
            try:
                nfree = len(w.F.get_free())
            except BaseException:  # noqa: BLE001
                nfree = -1
            if nfree != 0:
                out["c19"].append(["function has free symbols", nfree])
            if exp[1] and t["valid"] and t["links"]:
                out["dyn"] = dyn_record(w, t)
    elif c[0] == "net_step":
        if last[0] == "error":
            out["c07"].append([f"stepping a valid network raised {type(last[1]).__name__}: {str(last[1])[:100]}", c])
    elif c[0] == "is_valid":
        if last[0] != "valid":
            out["c06"].append([f"is_valid raised {type(last[1]).__name__}", c])
        elif last[1] != exp[1]:
            out["c06"].append([f"is_valid says {last[1]}, the nine conditions {exp[1]}", c])
    elif (exp[0] == "error") != (last[0] == "error"):
        out["drift"].append([f"outcome class of {c} differs: specification {exp[0]}, library {last[0]}"
                             + (f" ({type(last[1]).__name__})" if last[0] == "error" else ""), c])
    # which elements have variables / next states (beyond the listed properties: drift only)
    obs = w.observe(sorted(set(t["vars"]) | set(t["nxt"])))
    if c[0] not in ("net_step_partial", "net_step_late_fail") and not (last[0] == "error" and exp[0] != "error"):
        for i, v in t["vars"].items():
            if obs["vars"][i] != v and i not in t["tried"]:
                out["drift"].append([f"element {i} {'has' if obs['vars'][i] else 'has no'} variables, specification says otherwise", c])
        for i, v in t["nxt"].items():
            if obs["nxt"][i] != v:
                out["drift"].append([f"element {i} {'has' if obs['nxt'][i] else 'has no'} next states, specification says otherwise", c])
    if c[0] == "net_step" and last[0] != "error":
        miss = [i for i, v in t["nxt"].items() if v and not obs["nxt"][i]]
        if miss:
            out["c07"].append([f"after a whole-network step elements {miss} have no next states", c])
    return out

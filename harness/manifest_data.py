DYN_NOTE = ("Trusted: TLC 1.8, the Java override Real.class (exact BigInteger rationals; exp/ln/pow via StrictMath), "
            "the driver harness/dynrun.py (no model formulas, no layout knowledge), CasADi's jac_sparsity. Topologies are exhaustive "
            "within the stated node/link bound (up to renumbering); the continuous input space is covered by generic and corner "
            "points (distinct branch signatures and local patterns are counted in the evidence); numeric agreement at 1e-9 relative "
            "to the largest summed term.")
DYN_TECH = ("TLA+ spec (Laws/Metanet/Compile.tla) + TLC case enumeration (DynCases.tla) replayed into the code + "
            "TLC trace validation of the recorded executions (Trace_Dyn.tla)")
BUILD_NOTE = ("Trusted: TLC, the projection harness/buildrun.py, networkx as ground truth for recomputation. Exhaustive over all "
              "histories up to the depth bound in a universe of 3 nodes / 2 links / 2 origins / 2 destinations (duplicate names "
              "included); random recorded histories (6 nodes, 5 links) beyond that.")
BUILD_TECH = ("TLA+ state machine NetBuild.tla model-checked by TLC (MC_Build); every generated transition replayed into the real "
              "library; recorded random histories validated by TLC (Trace_Build.tla)")
LIFE_NOTE = ("Trusted: TLC, the replay harness harness/liferun.py (spy engine entered through engines.use(instance), type and "
             "identity observations). Fixed small network (mainstream origin, metered ramp, speed-limited link, congested "
             "destination, two late replacements); all interleavings up to the depth bound.")
LIFE_TECH = ("TLA+ state machine Lifecycle.tla model-checked by TLC (MC_Life) with transition assertions; every generated "
             "transition replayed into the real library; compiled functions validated numerically by Trace_Dyn.tla")
SESS_TECH = (" + TLA+ composition Session.tla (NetBuild x lifecycle over arbitrary graphs) model-checked by TLC (MC_Session) with "
             "transition assertions; every transition ending in a lifecycle call replayed into the real library")


def dyn(text, ref):
    return {"engine": "dyn", "text": text, "design_ref": ref, "note": DYN_NOTE, "technique": DYN_TECH}


def build(text, ref):
    return {"engine": "build", "text": text, "design_ref": ref, "note": BUILD_NOTE, "technique": BUILD_TECH}


def life(text, ref):
    return {"engine": "life", "text": text, "design_ref": ref, "note": LIFE_NOTE, "technique": LIFE_TECH}


CHECKS = {
    "C01": dyn("TLC enumerates every valid shape within the bound x decorations x generic/corner points; the real library (NumPy step and SX/MX functions) executes each; TLC validates every recorded next density/speed/queue against the exact-rational METANET specification. Representations (int/float/NumPy-scalar/0-d parameters, integer arrays, columns) and the history before the step (in-place refill + element-wise steps, a failed step, hand-stepped elements, reassigned attributes) vary per case.", "5/C01"),
    "C02": dyn("Network-wide and per-node vehicle balances evaluated by TLC on the implementation's own inputs and outputs (NumPy next states; x+, q, q_o of the compiled functions) for every enumerated case; exact conservation is also a theorem checked on the specification itself.", "5/C02"),
    "C03": dyn("Every enumerated case is evaluated through NumPy and through SX and MX functions at compactness 0/1/2; TLC compares each with the specification and the function outputs with the NumPy next states recorded for the same values.", "5/C03"),
    "C04": dyn("Names, sizes and free symbols of every compiled function (compactness -1..3, with/without flows, with declared parameters, SX and MX) are checked by TLC against Compile!LayoutIn/LayoutOut instantiated with the network's own element order; position-only generic arguments are decoded through the specification's layout and every result compared slot by slot.", "5/C04"),
    "C05": dyn("NumPy: the flows every link and origin reports when asked after a step (np.flow) against the specification. Functions: with more_out=True at the three levels (also with symbolic T / capacities / critical densities), TLC checks the reported link and origin flows against the specification and the queue / flow / feed identities on the function's own outputs.", "5/C05"),
    "C06": build("Every graph reachable through the construction API within the bound: is_valid(False)/(True) on the real network after every replayed transition against the nine conditions stated literally in NetBuild!Valid (verdict, raise-iff-invalid, messages); the returned message list is consumed and the question asked again; in every other history validity is asked after every call; construction calls that raise part-way (None nodes, malformed link descriptions in bulk calls) are calls of the model, with their partial effects. Second component (Session.tla): the verdict asked in every state of a user session - between steps, after steps that failed, after replacements - replayed and in recorded sessions.", "5/C06"),
    "C07": dyn("For every valid shape in the bound: is_valid accepts, NumPy steps (own variables 'rand'/'empty' and user arrays), SX and MX step and compile at compactness -1..3, shapes match, outputs finite on the defined admissible domain including exact zeros. Second component (Session.tla): every session of construction calls, validation, whole / half-way / late-failing / per-element steps up to the depth bound - whenever the network is valid a whole-network step succeeds, and a network stepped as a whole compiles to a function TLC validates numerically, whatever failed or was replaced before.", "5/C07"),
    "C08": build("All interleavings of mutating calls and reads up to the depth bound: after every replayed transition every lookup and per-node view of the real network equals recomputation from the live graph and the specification's value; the model's own invariant CacheCoherent is checked for the invalidation table. A history-complete profile (no two histories merged) and objects shared between networks cover state hidden outside the model. Construction calls that raise part-way after changing the graph are calls of the model: the lookups must be fresh after them too.", "5/C08"),
    "C09": build("All call sequences up to the bound and all path shapes up to length 4 (quick) / 6 (thorough): graph after each call equals NetBuild's post-state and the declaratively Described graph; malformed paths raise; no non-node object becomes a node; bulk arguments are spelled as list / tuple / generator / zip.", "5/C09"),
    "C10": dyn("Structural Jacobian sparsity of the SX and MX functions and bit-exact NumPy perturbation results are checked by TLC against the declarative dependency sets Metanet!Deps, also on networks reached by a construction detour with use in between.", "5/C10"),
    "C11": dyn("Family 'opts': the 64 option combinations over negative and positive inputs on NumPy, SX, MX; TLC compares with StepOpt = clamp o Step o clamp and checks bit-exactly the metamorphic relation against the plain step on hand-clamped inputs.", "5/C11"),
    "C12": life("Histories of steps/compilations/initialisations with caller-owned arrays and symbols: after every call every caller-owned object, the supplied dictionary and all element parameters are compared with pristine copies; every NumPy step from caller values is compared bit for bit with a fresh network. In addition, on every enumerated topology of the dynamics engine: caller arrays unchanged after one and two steps, and bit-identical next states when stepping again from the same dictionary and from fresh copies (clauses np.heap, np.repeat of Trace_Dyn).", "5/C12"),
    "C13": life("All sequences of use(name|instance|bad name) and steps/initialisations with and without explicit engines for all (selected, explicit) pairs: the selected engine is a spy that must stay silent when an explicit engine is passed; kinds of all variables match; selection only changes through use(). In addition, on every enumerated topology of the dynamics engine a recording engine is selected while another engine is passed explicitly (three kind pairs): the recording engine must compute nothing, all variables and next states have the explicit kind, the selection survives (clauses spy.* of Trace_Dyn).", "5/C13"),
    "C14": dyn("Related networks (permuted/bulk/path construction histories with random names, equal names, turn rates scaled per node) stepped by the real library from the same values must give the next states of the base network; exact invariance under scaling is a theorem checked on the specification.", "5/C14"),
    "C15": {"engine": "prim", "text": "Full product grids per primitive (boundaries, ties, every branch), enumerated by TLC; NumPy and CasADi implementations called on each point as NumPy scalar / 0-d array / length-1 / length-3 arguments (the NumPy primitive twice on the same argument objects) and validated by TLC against the scalar laws and against each other.", "design_ref": "5/C15",
            "note": "Trusted: TLC + Real.class; grids are finite samples placed on every boundary of the laws.",
            "technique": "TLA+ scalar laws (Laws.tla) + TLC-enumerated grids (Prim.tla, gen) called on both engines + TLC validation of the recorded results (Prim.tla, check)"},
    "C16": dyn("Functions compiled with symbolic parameter subsets (singletons, pairs, full set; per-element and shared symbols; SX and MX; levels 0 and 2) are evaluated at two parameter points; TLC substitutes the values into the specification's network and compares; trailing positions / stacked p per Compile!ParamEntries.", "5/C16"),
    "C17": dyn("TLC checks the origin-flow bounds and next-queue non-negativity on the q_o / w+ outputs of compiled functions and on the NumPy next queues for every admissible enumerated case, on both engines' origin primitives over full grids, and as exact theorems on the specification; also on networks reached by a construction detour (elements first attached elsewhere, the half-built network used, then re-attached).", "5/C17"),
    "C18": dyn("Family 'neutral': each case runs against its uncontrolled twin generated by the specification (plain links; swapped ramp variant; unbounded desired flow; infinite limits): equal next states when controls are neutral, next speeds never higher and everything else equal under finite limits; the same relation is an exact theorem on the specification.", "5/C18"),
    "C19": life("All interleavings of whole-network steps, per-element init/step, init-all, late replacements and compilations up to the depth bound: RuntimeError iff the specification's Ready fails (uninitialised, unstepped or stale next states); returned functions have no free symbols and their values equal StepOpt with the parameters of the most recent step. Compiling is an observation: the function at the end of a history that compiled before equals the function of the same history without the earlier compilations. Replayed with distinct names, shared names and recycled object addresses; a history-complete profile covers state hidden inside engines and elements. Second component (Session.tla, the composition of NetBuild with the lifecycle over ARBITRARY graphs): elements added, replaced and re-attached through the construction API between steps, steps that fail half-way or at the last link, per-element steps; RuntimeError iff the specification's Ready fails on the present graph, functions free of free symbols and numerically equal to the step of the network built.", "5/C19"),
}
for _p in ("C06", "C07", "C19"):
    CHECKS[_p]["technique"] += SESS_TECH
ENGINES = [
    {"name": "dyn", "path": "tla/Real.tla tla/Real.java tla/Laws.tla tla/Metanet.tla tla/Compile.tla tla/DynCases.tla tla/Trace_Dyn.tla harness/dyncheck.py harness/dynrun.py",
     "serves_properties": [p for p, c in sorted(CHECKS.items()) if c["engine"] == "dyn"],
     "kind_free_text": "TLA+ model of the METANET step and of the compiled-function layout over exact rationals; TLC generates cases and validates recorded executions"},
    {"name": "build", "path": "tla/NetBuild.tla tla/MC_Build.tla tla/Trace_Build.tla harness/buildcheck.py harness/buildrun.py harness/buildtrace.py",
     "serves_properties": ["C06", "C08", "C09"], "kind_free_text": "TLA+ state machine of the construction API, caches and validation; exhaustive TLC exploration replayed into the code + trace validation"},
    {"name": "life", "path": "tla/Lifecycle.tla tla/MC_Life.tla harness/lifecheck.py harness/liferun.py",
     "serves_properties": ["C12", "C13", "C19"], "kind_free_text": "TLA+ state machine of engine selection / init / step / compile readiness; exhaustive TLC exploration replayed into the code"},
    {"name": "session", "path": "tla/NetBuild.tla tla/Session.tla tla/MC_Session.tla tla/MC_Session.cfg harness/sesscheck.py harness/sessrun.py",
     "serves_properties": ["C06", "C07", "C19"], "kind_free_text": "TLA+ composition of the construction state machine with the element lifecycle over arbitrary graphs; exhaustive TLC exploration of user sessions replayed into the code"},
    {"name": "prim", "path": "tla/Laws.tla tla/Prim.tla harness/primcheck.py harness/primrun.py",
     "serves_properties": ["C15", "C17"], "kind_free_text": "scalar laws + TLC-enumerated grids for every engine primitive"},
]
NOT_APPLICABLE = {}
NOTES = ("See DESIGN.md. All checks: /venv/bin/python harness/check.py <id> --tier quick|thorough; exit 2 = machinery failure. "
         "TLC outputs that depend only on the specification and the seed are cached under .cache/ (pre-generated by build.sh); "
         "everything touching /repo is re-run on every invocation. harness/selftest.py validates the machinery against a catalogue "
         "of source mutations (harness/mutants.py) on scratch copies; harness/seedsweep.py re-runs the 93 independently seeded changes of seeded/.")

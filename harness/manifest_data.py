DYN_NOTE = ("Trusted: TLC 1.8, the Java override Real.class (exact BigInteger rationals; exp/ln/pow via StrictMath), "
            "the projection/driver harness/dynrun.py, CasADi's jac_sparsity. Topologies are exhaustive within the stated "
            "node/link bound; the continuous input space is covered by generic and corner points (branch signatures counted).")
DYN_TECH = "TLA+ spec (Metanet.tla/Compile.tla) + TLC case enumeration (DynCases.tla) replayed into the code + TLC trace validation of recorded executions (Trace_Dyn.tla)"

def dyn(text, ref):
    return {"engine": "dyn", "text": text, "design_ref": ref, "note": DYN_NOTE, "technique": DYN_TECH}

CHECKS = {
    "C01": dyn("TLC enumerates every valid shape within the bound x decorations x generic/corner points; the real library (NumPy step and SX/MX functions) executes each; TLC validates every recorded next density/speed/queue against the exact-rational METANET specification.", "5/C01"),
    "C02": dyn("Network-wide and per-node vehicle balances evaluated by TLC on the implementation's own inputs and outputs (NumPy next states; x+, q, q_o of the compiled functions) for every enumerated case; exact conservation is also checked on the specification itself.", "5/C02"),
    "C03": dyn("Every enumerated case is evaluated through NumPy and through SX and MX functions at compactness 0/1/2; TLC compares each with the specification and the function outputs with the NumPy next states recorded for the same values.", "5/C03"),
    "C05": dyn("With more_out=True at the three levels, TLC checks the reported link and origin flows against the specification and the queue / flow / feed identities on the function's own outputs.", "5/C05"),
    "C07": dyn("For every valid shape in the bound: is_valid accepts, NumPy steps (own variables and user arrays), SX and MX step and compile at compactness -1..3, shapes match, and outputs are finite on the defined admissible domain including exact zeros.", "5/C07"),
    "C10": dyn("Structural Jacobian sparsity of the SX and MX functions and bit-exact NumPy perturbation results are checked by TLC against the declarative dependency sets Deps of the specification.", "5/C10"),
    "C17": dyn("TLC checks the origin-flow bounds and next-queue non-negativity on the q_o / w+ outputs of the compiled functions for every admissible enumerated case, and as exact theorems on the specification.", "5/C17"),
}
ENGINES = [
    {"name": "dyn", "path": "tla/Metanet.tla tla/Compile.tla tla/DynCases.tla tla/Trace_Dyn.tla harness/dyncheck.py",
     "serves_properties": sorted(CHECKS), "kind_free_text": "TLA+ model of the METANET step and of the compiled-function layout; TLC generates cases and validates recorded executions"},
]
NOT_APPLICABLE = {p: "check under construction in this round (specification module not yet bound); see DESIGN.md section 5"
                  for p in ["C04", "C06", "C08", "C09", "C11", "C12", "C13", "C14", "C15", "C16", "C18", "C19"]}
NOTES = "See DESIGN.md. All checks: /venv/bin/python harness/check.py <id> --tier quick|thorough; exit 2 = machinery failure."

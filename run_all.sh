#!/bin/sh
# convenience: run every registered check of a tier (or the listed ones, in the given order), summarise
tier=${1:-quick}
shift 2>/dev/null
list=${*:-C01 C02 C03 C04 C05 C06 C07 C08 C09 C10 C11 C12 C13 C14 C15 C16 C17 C18 C19}
rc=0
mkdir -p work
for p in $list; do
  /venv/bin/python harness/check.py $p --tier $tier > work/last-$p.log 2>&1
  r=$?
  echo "$p exit=$r $(tail -1 work/last-$p.log | cut -c1-200)"
  [ $r -ne 0 ] && { rc=1; grep -E "^VIOLATION|^MACHINERY" work/last-$p.log | head -5 | cut -c1-600; }
done
exit $rc

#!/bin/sh
# convenience: run every registered check of a tier, summarise
tier=${1:-quick}
rc=0
mkdir -p work
for p in C01 C02 C03 C04 C05 C06 C07 C08 C09 C10 C11 C12 C13 C14 C15 C16 C17 C18 C19; do
  /venv/bin/python harness/check.py $p --tier $tier > work/last-$p.log 2>&1
  r=$?
  echo "$p exit=$r $(tail -1 work/last-$p.log | cut -c1-200)"
  [ $r -ne 0 ] && rc=1
done
exit $rc

------------------------------ MODULE Lifecycle ------------------------------
(***************************************************************************)
(* Engine selection, variable initialisation, stepping and compilation as  *)
(* a state machine (C12, C13, C19), over a fixed small network             *)
(*                                                                         *)
(*     O1 (mainstream) -> N1 --LA--> N2 --L2--> N3 -> DST                  *)
(*                                   ^ R (metered ramp)                    *)
(*                                                                         *)
(* where LA is L1 or, after add_later("L3"), the replacement link L3, R is *)
(* R1 or, after add_later("R2"), the replacement ramp R2, and DST is the   *)
(* free destination D0 (no variables) or, after add_later("D1"), the       *)
(* congested destination D1 (a disturbance variable).                      *)
(* One public call = one pure function Apply(S, call).                     *)
(*                                                                         *)
(* State S:                                                                *)
(*   cur   : [kind, id]   the selected engine: kind in {"np","sx","mx"},   *)
(*           id the instance identity ("fresh<k>" for engines created by   *)
(*           name)                                                         *)
(*   la, r : the link on N1->N2 and the ramp at N2 currently in the net    *)
(*   vars  : [element -> "" | kind]      initialised variables and their   *)
(*           engine kind ("" = None)                                       *)
(*   nxt   : [element -> None | [kind, deps, stale, par, opts, vals]]      *)
(*           the next states: which elements' variables they were built    *)
(*           from, and whether one of those has been re-created since      *)
(*           (stale = the expression contains symbols that are no longer   *)
(*           the network's variables)                                      *)
(*   nfresh: number of engines created by name so far                      *)
(***************************************************************************)
EXTENDS Integers, Sequences, FiniteSets, TLC

Elements == {"L1", "L2", "L3", "O1", "R1", "R2", "D0", "D1"}
Declaring == Elements \ {"D0"}                          \* elements that declare variables (the free destination has none)
Stateful == {"L1", "L2", "L3", "O1", "R1", "R2"}        \* elements with states (D1 only has a disturbance)
Kinds == {"np", "sx", "mx"}
NoNext == [has |-> FALSE]

InNet(S) == {S.la, "L2", "O1", S.r, S.dst}
\* the network's own enumeration order: links, origins, destinations
ElemOrder(S) == <<S.la, "L2", "O1", S.r, S.dst>>
\* the elements whose variables the step of e reads (Metanet!Deps lifted to elements)
Deps(S, e) == CASE e = S.la -> {S.la, "O1", "L2"}
                [] e = "L2" -> {"L2", S.la, S.r, S.dst}
                [] e = "O1" -> {"O1", S.la}
                [] e = S.r  -> {S.r, "L2"}
                [] OTHER -> {e}

Init0 == [cur |-> [kind |-> "sx", id |-> "default"], la |-> "L1", r |-> "R1", dst |-> "D0",
          vars |-> [e \in Elements |-> ""], nxt |-> [e \in Elements |-> NoNext], nfresh |-> 0]

KindOf(S, eng) == IF eng = "" THEN S.cur.kind ELSE eng

\* (re)creating the variables of e makes every next state built from them stale
InitEl(S, e, k) ==
  IF e \notin Declaring THEN S ELSE
  [S EXCEPT !.vars[e] = k,
            !.nxt = [x \in Elements |-> IF S.nxt[x].has /\ e \in S.nxt[x].deps THEN [S.nxt[x] EXCEPT !.stale = TRUE] ELSE S.nxt[x]]]
StepOk(S, e, k) == e \in Stateful /\ \A d \in Deps(S, e) \cap Declaring : S.vars[d] = k
StepEl(S, e, k, par, opts, vals) ==
  [S EXCEPT !.nxt[e] = [has |-> TRUE, kind |-> k, deps |-> Deps(S, e), stale |-> FALSE, par |-> par, opts |-> opts, vals |-> vals]]
RECURSIVE InitAll(_, _, _)
InitAll(S, es, k) == IF es = <<>> THEN S ELSE InitAll(InitEl(S, Head(es), k), Tail(es), k)
RECURSIVE StepAll(_, _, _, _, _, _)
StepAll(S, es, k, par, opts, vals) ==
  IF es = <<>> THEN S ELSE StepAll(StepEl(S, Head(es), k, par, opts, vals), Tail(es), k, par, opts, vals)
\* Network.step: initialise every element, then step the origins (those with states), then the links
NetStep(S, k, par, opts, vals) ==
  StepAll(InitAll(S, ElemOrder(S), k), <<"O1", S.r, S.la, "L2">>, k, par, opts, vals)

\* readiness of to_function (C19)
Uninitialised(S) == {e \in InNet(S) \cap Declaring : S.vars[e] = ""}
Unstepped(S) == {e \in InNet(S) \cap Stateful : ~S.nxt[e].has}
Stale(S) == {e \in InNet(S) \cap Stateful : S.nxt[e].has /\ S.nxt[e].stale}
Ready(S) == Uninitialised(S) = {} /\ Unstepped(S) = {} /\ Stale(S) = {}
\* all next states come from one and the same step call with uniform parameters (then the function's value is Metanet!StepOpt)
\* ... and every element was last stepped with its present neighbours (a replaced neighbour without variables, the free
\* destination, leaves no stale symbol behind: the old next state is then still a function, of the OLD network)
Uniform(S) == /\ \A a, b \in InNet(S) \cap Stateful :
                   S.nxt[a].has /\ S.nxt[b].has => (S.nxt[a].par = S.nxt[b].par /\ S.nxt[a].opts = S.nxt[b].opts)
              /\ \A a \in InNet(S) \cap Stateful : S.nxt[a].has => S.nxt[a].deps = Deps(S, a)
\* the model leaves mixed engine kinds unspecified: compilation is only modelled when everything is of the compiling kind
Homogeneous(S, k) == /\ \A e \in InNet(S) : S.vars[e] \in {"", k}
                     /\ \A e \in InNet(S) \cap Stateful : S.nxt[e].has => S.nxt[e].kind = k

\* the network-level maps net.states / net.next_states / net.actions / net.disturbances: the elements they list, in
\* the network's own enumeration order (an element is listed once its variables of that group exist)
WithActions == {"L2", "O1", "R1", "R2"}           \* speed-limited link, mainstream origin, metered ramps
WithDisturbances == {"O1", "R1", "R2", "D1"}      \* demands, destination density
Listed(S, P(_)) == SelectSeq(ElemOrder(S), P)
MapStates(S) == Listed(S, LAMBDA e : e \in Stateful /\ S.vars[e] # "")
MapNext(S) == Listed(S, LAMBDA e : e \in Stateful /\ S.nxt[e].has)
MapActions(S) == Listed(S, LAMBDA e : e \in WithActions /\ S.vars[e] # "")
MapDisturbances(S) == Listed(S, LAMBDA e : e \in WithDisturbances /\ S.vars[e] # "")
\* every element listed with next states is listed with states (a step needs initialised variables)
MapsConsistent(S) == \A i \in DOMAIN MapNext(S) : \E j \in DOMAIN MapStates(S) : MapStates(S)[j] = MapNext(S)[i]

Available == {"numpy", "casadi"}
KindOfName(n) == IF n = "numpy" THEN "np" ELSE "sx"

\* call = <<op, args...>>;  result [S, res].  An action is enabled when Enabled(S, c).
CallEnabled(S, c) ==
  CASE c[1] = "step" -> c[2] \in InNet(S) \cap Stateful
                        /\ (S.vars[c[2]] = "" \/ (\E d \in Deps(S, c[2]) \cap Declaring : S.vars[d] = "") \/ StepOk(S, c[2], KindOf(S, c[3])))
    [] c[1] = "init" -> c[2] \in InNet(S)
    [] c[1] = "compile" -> Homogeneous(S, c[2])
    [] c[1] = "add_later" -> (c[2] = "R2" /\ S.r = "R1") \/ (c[2] = "L3" /\ S.la = "L1") \/ (c[2] = "D1" /\ S.dst = "D0")
    [] OTHER -> TRUE

Apply(S, c) ==
  LET op == c[1]
  IN CASE op = "use" ->
            IF c[2] \in Available
            THEN [S |-> [S EXCEPT !.cur = [kind |-> KindOfName(c[2]), id |-> "fresh" \o ToString(S.nfresh + 1)], !.nfresh = @ + 1],
                  res |-> <<"engine", KindOfName(c[2]), "fresh" \o ToString(S.nfresh + 1)>>]
            ELSE [S |-> S, res |-> <<"error", "EngineNotFoundError">>]
       [] op = "use_inst" -> [S |-> [S EXCEPT !.cur = [kind |-> c[3], id |-> c[2]]], res |-> <<"engine", c[3], c[2]>>]
       [] op = "net_step" -> [S |-> NetStep(S, KindOf(S, c[2]), c[3], c[4], c[5]), res |-> <<"ok", KindOf(S, c[2])>>]
       \* a whole-network step that FAILS part-way (the caller forgot the sampling time): every element has been
       \* re-initialised by then, nothing has been stepped; the caller catches the error and carries on
       [] op = "net_step_fail" -> [S |-> InitAll(S, ElemOrder(S), KindOf(S, c[2])), res |-> <<"error", "any">>]
       [] op = "init" -> [S |-> InitEl(S, c[2], KindOf(S, c[3])),
                          res |-> <<"ok", KindOf(S, c[3])>>]
       [] op = "init_all" -> [S |-> InitAll(S, ElemOrder(S), KindOf(S, c[2])), res |-> <<"ok", KindOf(S, c[2])>>]
       [] op = "step" ->
            IF S.vars[c[2]] = "" THEN [S |-> S, res |-> <<"error", "AssertionError">>]
            ELSE IF \E d \in Deps(S, c[2]) \cap Declaring : S.vars[d] = "" THEN [S |-> S, res |-> <<"error", "any">>]
            ELSE [S |-> StepEl(S, c[2], KindOf(S, c[3]), c[4], c[5], ""), res |-> <<"ok", KindOf(S, c[3])>>]
       [] op = "add_later" ->
            LET old == CASE c[2] = "R2" -> "R1" [] c[2] = "L3" -> "L1" [] OTHER -> "D0"
                S1 == CASE c[2] = "R2" -> [S EXCEPT !.r = "R2"] [] c[2] = "L3" -> [S EXCEPT !.la = "L3"] [] OTHER -> [S EXCEPT !.dst = "D1"]
            IN \* the replaced element's variables are no longer the network's: what was built from them is stale
               [S |-> [S1 EXCEPT !.nxt = [x \in Elements |-> IF S.nxt[x].has /\ old \in S.nxt[x].deps \cap Declaring
                                                               THEN [S.nxt[x] EXCEPT !.stale = TRUE] ELSE S.nxt[x]]],
                res |-> <<"ok", "">>]
       [] op = "compile" ->
            [S |-> S, res |-> IF Ready(S) THEN <<"function", Uniform(S)>> ELSE <<"error", "RuntimeError">>]

-----------------------------------------------------------------------------
(* Properties *)
\* C19 (ReadyIff): a function is produced exactly for a fully initialised and stepped network whose next
\* states were built from the network's current variables
ReadyIff(S, c, res) == c[1] = "compile" => ((res[1] = "function") <=> Ready(S))
\* C19: a network stepped as a whole is ready, whatever happened before (Network.step re-creates everything)
StepMakesReady(S, c, T) == c[1] = "net_step" => Ready(T)
\* C19: touching an element after the last step always makes the network unready until the affected elements are stepped again
TouchUnreadies(S, c, T) ==
  (c[1] = "init" /\ c[2] \in Stateful /\ c[2] \in InNet(S) /\ S.nxt[c[2]].has) => ~Ready(T)
AddUnreadies(S, c, T) == (c[1] = "add_later" /\ c[2] # "D1") => ~Ready(T)
\* C19: a failed whole-network step leaves an unready network (variables re-created, nothing stepped from them)
FailedStepUnreadies(S, c, T) == c[1] = "net_step_fail" => ~Ready(T)
\* the congested destination added later has no variables yet: unready until it is initialised
AddDestUnreadies(S, c, T) == (c[1] = "add_later" /\ c[2] = "D1") => ~Ready(T)
\* C13 (UseSemantics)
UseSemantics(S, c, T, res) ==
  /\ (c[1] = "use" /\ c[2] \in Available) => (T.cur.kind = KindOfName(c[2]) /\ T.cur.id # S.cur.id /\ res = <<"engine", T.cur.kind, T.cur.id>>)
  /\ (c[1] = "use" /\ c[2] \notin Available) => (T.cur = S.cur /\ res[1] = "error")
  /\ c[1] = "use_inst" => T.cur.id = c[2]
  /\ c[1] \notin {"use", "use_inst"} => T.cur = S.cur
\* C13 (ExplicitHonoured): every variable and next state produced by a call carries the kind of the engine
\* passed explicitly, or of the selected engine when none is passed
ExplicitHonoured(S, c, T) ==
  /\ c[1] = "net_step" => /\ \A e \in InNet(T) \cap Declaring : T.vars[e] = KindOf(S, c[2])
                          /\ \A e \in InNet(T) \cap Stateful : T.nxt[e].has /\ T.nxt[e].kind = KindOf(S, c[2])
  /\ (c[1] = "init" /\ c[2] \in Declaring) => T.vars[c[2]] = KindOf(S, c[3])
  /\ c[1] \in {"init_all", "net_step_fail"} => \A e \in InNet(T) \cap Declaring : T.vars[e] = KindOf(S, c[2])
=============================================================================

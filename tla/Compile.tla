------------------------------- MODULE Compile -------------------------------
(***************************************************************************)
(* Layout of the function returned by Engine.to_function (C04, C05, C16):  *)
(* which slot of which element every position of every argument and every  *)
(* result carries, for the three compactness levels, with / without extra  *)
(* flow outputs and declared parameters.  Pure operators.                   *)
(*                                                                         *)
(* An "entry" is [name |-> STRING, slots |-> Seq(slot)].  Slots are the     *)
(* 3-tuples of Metanet.tla plus <<"q", l, i>> (link flow), <<"qo", o, 1>>  *)
(* (origin flow) and <<"p", name, 1>> (declared parameter).                 *)
(* `elems` is the network's own enumeration order of its elements (links,   *)
(* then origins, then destinations), as a sequence of ids.                  *)
(***************************************************************************)
EXTENDS Integers, Sequences, FiniteSets, Metanet

RangeOf(s) == {s[i] : i \in DOMAIN s}
RECURSIVE FlattenSeq(_)
FlattenSeq(ss) == IF ss = <<>> THEN <<>> ELSE Head(ss) \o FlattenSeq(Tail(ss))

\* name of the control variable of an origin kind
UName(kind) == CASE kind = "mainstream" -> "v_ctrl"
                 [] kind \in {"ramp_in", "ramp_out"} -> "r"
                 [] OTHER -> "q"

\* the variables an element declares, in the order the library keeps them:
\* [grp in {"x","u","d"}, var, el, slots]
ElemVars(net, e) ==
  IF e \in Links(net) THEN
    LET lk == net.links[e]
    IN <<[grp |-> "x", var |-> "rho", el |-> e, slots |-> [i \in 1..lk.N |-> <<"rho", e, i>>]],
         [grp |-> "x", var |-> "v",   el |-> e, slots |-> [i \in 1..lk.N |-> <<"v", e, i>>]]>>
       \o (IF lk.ctl THEN <<[grp |-> "u", var |-> "v_ctrl", el |-> e,
                             slots |-> [k \in 1..Cardinality(lk.vsl) |-> <<"vc", e, k>>]]>> ELSE <<>>)
  ELSE IF e \in Queued(net) THEN
    <<[grp |-> "x", var |-> "w", el |-> e, slots |-> <<<<"w", e, 1>>>>],
      [grp |-> "u", var |-> UName(net.origins[e].kind), el |-> e, slots |-> <<<<"uo", e, 1>>>>],
      [grp |-> "d", var |-> "d", el |-> e, slots |-> <<<<"do", e, 1>>>>]>>
  ELSE IF e \in Congested(net) THEN
    <<[grp |-> "d", var |-> "d", el |-> e, slots |-> <<<<"dd", e, 1>>>>]>>
  ELSE <<>>

AllVars(net, elems) == FlattenSeq([j \in DOMAIN elems |-> ElemVars(net, elems[j])])
GroupVars(net, elems, g) == SelectSeq(AllVars(net, elems), LAMBDA r : r.grp = g)

RECURSIVE DedupR(_, _)
DedupR(s, acc) == IF s = <<>> THEN acc
                  ELSE DedupR(Tail(s), IF Head(s) \in RangeOf(acc) THEN acc ELSE Append(acc, Head(s)))
Dedup(s) == DedupR(s, <<>>)

\* level 1: per variable name (first-appearance order), the concatenation over the elements
ByName(vars, suffix) ==
  LET names == Dedup([j \in DOMAIN vars |-> vars[j].var])
  IN [j \in DOMAIN names |->
        [name |-> names[j] \o suffix,
         slots |-> FlattenSeq(LET sel == SelectSeq(vars, LAMBDA r : r.var = names[j])
                              IN [k \in DOMAIN sel |-> sel[k].slots])]]
PerElem(vars, suffix) ==
  [j \in DOMAIN vars |-> [name |-> vars[j].var \o "_" \o vars[j].el \o suffix, slots |-> vars[j].slots]]
Stack(name, entries) ==
  [name |-> name, slots |-> FlattenSeq([j \in DOMAIN entries |-> entries[j].slots])]

LinkElems(net, elems) == SelectSeq(elems, LAMBDA e : e \in Links(net))
OrigElems(net, elems) == SelectSeq(elems, LAMBDA e : e \in Origins(net))

FlowEntries(net, elems, compact) ==
  LET ls == LinkElems(net, elems)  os == OrigElems(net, elems)
      ql == [j \in DOMAIN ls |-> [name |-> "q_" \o ls[j], slots |-> [i \in 1..net.links[ls[j]].N |-> <<"q", ls[j], i>>]]]
      qo == [j \in DOMAIN os |-> [name |-> "q_o_" \o os[j], slots |-> <<<<"qo", os[j], 1>>>>]]
  IN IF compact <= 0 THEN ql \o qo
     ELSE IF compact = 1 THEN <<Stack("q", ql), Stack("q_o", qo)>>
     ELSE <<Stack("q", ql \o qo)>>

\* params: sequence of declared parameter names
ParamEntries(params, compact) ==
  IF params = <<>> THEN <<>>
  ELSE IF compact <= 0 THEN [j \in DOMAIN params |-> [name |-> params[j], slots |-> <<<<"p", params[j], 1>>>>]]
  ELSE <<[name |-> "p", slots |-> [j \in DOMAIN params |-> <<"p", params[j], 1>>]]>>

LayoutIn(net, elems, compact, params) ==
  LET X == GroupVars(net, elems, "x")  U == GroupVars(net, elems, "u")  D == GroupVars(net, elems, "d")
  IN (IF compact <= 0 THEN PerElem(X, "") \o PerElem(U, "") \o PerElem(D, "")
      ELSE IF compact = 1 THEN ByName(X, "") \o ByName(U, "") \o ByName(D, "")
      ELSE <<Stack("x", ByName(X, "")), Stack("u", ByName(U, "")), Stack("d", ByName(D, ""))>>)
     \o ParamEntries(params, compact)

LayoutOut(net, elems, compact, more_out) ==
  LET X == GroupVars(net, elems, "x")
  IN (IF compact <= 0 THEN PerElem(X, "+")
      ELSE IF compact = 1 THEN ByName(X, "+")
      ELSE <<Stack("x+", ByName(X, ""))>>)
     \o (IF more_out THEN FlowEntries(net, elems, compact) ELSE <<>>)

Names(entries) == [j \in DOMAIN entries |-> entries[j].name]
Sizes(entries) == [j \in DOMAIN entries |-> Len(entries[j].slots)]
AllSlots(entries) == FlattenSeq([j \in DOMAIN entries |-> entries[j].slots])

-----------------------------------------------------------------------------
(* Theorems about the layout, checked by TLC for every enumerated network and
   option combination (MC_Layout / the trace validator evaluates them per record) *)

NoDup(s) == \A i, j \in DOMAIN s : s[i] = s[j] => i = j

\* every independent state/action/disturbance slot appears exactly once, nothing else does
NothingMissing(net, elems, compact) ==
  LET s == AllSlots(LayoutIn(net, elems, compact, <<>>))
  IN NoDup(s) /\ RangeOf(s) = InputSlots(net)

\* the state part of the results lines up position by position with the state arguments
FeedBack(net, elems, compact) ==
  LET nx == Len(IF compact <= 1 THEN (IF compact <= 0 THEN PerElem(GroupVars(net, elems, "x"), "")
                                                       ELSE ByName(GroupVars(net, elems, "x"), "")) ELSE <<1>>)
      ins == SubSeq(LayoutIn(net, elems, compact, <<>>), 1, nx)
      outs == LayoutOut(net, elems, compact, FALSE)
  IN /\ Len(outs) = nx
     /\ \A j \in 1..nx : outs[j].slots = ins[j].slots
     /\ \A j \in 1..nx : compact <= 1 => outs[j].name = ins[j].name \o "+"
     /\ RangeOf(AllSlots(outs)) = OutputSlots(net)

\* the three levels are the same up to concatenation: flattening everything gives, per group,
\* the same multiset of slots, and level 2 is the flattening of level 1
SameUpToConcat(net, elems) ==
  LET l0 == LayoutIn(net, elems, 0, <<>>)  l1 == LayoutIn(net, elems, 1, <<>>)  l2 == LayoutIn(net, elems, 2, <<>>)
      o1 == LayoutOut(net, elems, 1, TRUE)  o2 == LayoutOut(net, elems, 2, TRUE)  o0 == LayoutOut(net, elems, 0, TRUE)
  IN /\ AllSlots(l1) = AllSlots(l2)
     /\ RangeOf(AllSlots(l0)) = RangeOf(AllSlots(l1))
     /\ AllSlots(o1) = AllSlots(o2)
     /\ RangeOf(AllSlots(o0)) = RangeOf(AllSlots(o1))

ParamsTrailing(net, elems, compact, params) ==
  LET li == LayoutIn(net, elems, compact, params)  l0 == LayoutIn(net, elems, compact, <<>>)
  IN /\ SubSeq(li, 1, Len(l0)) = l0
     /\ AllSlots(SubSeq(li, Len(l0) + 1, Len(li))) = [j \in DOMAIN params |-> <<"p", params[j], 1>>]
=============================================================================

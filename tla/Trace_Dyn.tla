------------------------------ MODULE Trace_Dyn ------------------------------
(***************************************************************************)
(* Trace validation for the dynamics layer.  Every line of the trace file  *)
(* is one recorded execution of the real library on one network: the       *)
(* abstract network, the values supplied, and what the implementation      *)
(* returned (NumPy next states; names, sizes, arguments and results of the *)
(* compiled CasADi functions; Jacobian sparsity; perturbation results).    *)
(* TLC evaluates the specification (Metanet.tla, Compile.tla) on the same  *)
(* inputs and reports, per record, the set of failing clauses.  The        *)
(* verdict is total: one line per record; the harness maps clause names to *)
(* properties.  Clauses starting with "model." are theorems of the         *)
(* specification itself, evaluated on the same inputs (exact arithmetic).  *)
(***************************************************************************)
EXTENDS Integers, Sequences, FiniteSets, TLC, Json, IOUtils, Compile

Trace == ndJsonDeserialize(IOEnv.TRACE_FILE)

P(s) == RParse(s)
PSeq(s) == [i \in DOMAIN s |-> P(s[i])]
Tol    == RQ(1, 1000000000)      \* implementation vs specification
TolX   == RParse("1e-10")           \* implementation vs implementation

Net(r) ==
  [links |-> [l \in DOMAIN r.net.links |-> LET k == r.net.links[l] IN
      [up |-> k.up, down |-> k.down, N |-> k.N, lam |-> P(k.lam), L |-> P(k.L), rho_max |-> P(k.rho_max),
       rho_crit |-> P(k.rho_crit), v_free |-> P(k.v_free), a |-> P(k.a), beta |-> P(k.beta),
       ctl |-> k.ctl, vsl |-> {k.vsl[i] : i \in DOMAIN k.vsl}, alpha |-> P(k.alpha)]],
   origins |-> [o \in DOMAIN r.net.origins |-> [node |-> r.net.origins[o].node, kind |-> r.net.origins[o].kind, C |-> P(r.net.origins[o].C)]],
   dests |-> [k \in DOMAIN r.net.dests |-> [node |-> r.net.dests[k].node, kind |-> r.net.dests[k].kind]]]
Par(r) == [T |-> P(r.par.T), tau |-> P(r.par.tau), eta |-> P(r.par.eta), kappa |-> P(r.par.kappa),
           delta |-> P(r.par.delta), phi |-> P(r.par.phi), hasDelta |-> r.par.hasDelta, hasPhi |-> r.par.hasPhi]
X(j) == [rho |-> [l \in DOMAIN j.rho |-> PSeq(j.rho[l])], v |-> [l \in DOMAIN j.v |-> PSeq(j.v[l])], w |-> [o \in DOMAIN j.w |-> P(j.w[o])]]
U(j) == [vctrl |-> [l \in DOMAIN j.vctrl |-> PSeq(j.vctrl[l])], o |-> [o \in DOMAIN j.o |-> P(j.o[o])]]
D(j) == [o |-> [o \in DOMAIN j.o |-> P(j.o[o])], dest |-> [k \in DOMAIN j.dest |-> P(j.dest[k])]]

-----------------------------------------------------------------------------
(* expected value and rounding scale of an output slot *)
Expected(y, fl, s) ==
  CASE s[1] = "rho" -> y.rho[s[2]][s[3]]
    [] s[1] = "v"   -> y.v[s[2]][s[3]]
    [] s[1] = "w"   -> y.w[s[2]]
    [] s[1] = "q"   -> fl.q[s[2]][s[3]]
    [] s[1] = "qo"  -> fl.q_o[s[2]]
ScaleOf(net, par, xc, u, d, s) ==
  CASE s[1] = "rho" -> ScaleRho(net, par, xc, u, d, s[2], s[3])
    [] s[1] = "v"   -> ScaleV(net, par, xc, u, d, s[2], s[3])
    [] s[1] = "w"   -> ScaleW(net, par, xc, u, d, s[2])
    [] OTHER -> Zero
\* a comparison is only made where the model is defined
CloseOrUndef(exp, got, tol, scale) == RIsNaN(exp) \/ RClose(exp, got, tol, scale)

StateSlots(net) == OutputSlots(net)
ObsY(net, j, s) == CASE s[1] = "rho" -> P(j.rho[s[2]][s[3]]) [] s[1] = "v" -> P(j.v[s[2]][s[3]]) [] s[1] = "w" -> P(j.w[s[2]])

\* ---- NumPy observation (C01, C02, C07, C11) -------------------------------------------------
NpFails(r, net, par, opts, x, u, d) ==
  LET o == r.obs.np
  IN IF ~o.has THEN {}
     ELSE IF ~o.ok THEN {<<"np.ok", o.err>>}
     ELSE
       LET xc == ClampInit(opts, x)
           y == StepOpt(net, par, opts, x, u, d)
           fl == FlowsOut(net, par, opts, x, u, d)
           yo == [rho |-> [l \in DOMAIN o.y.rho |-> PSeq(o.y.rho[l])], v |-> [l \in DOMAIN o.y.v |-> PSeq(o.y.v[l])],
                  w |-> [q \in DOMAIN o.y.w |-> P(o.y.w[q])]]
           mism == {s \in StateSlots(net) : ~CloseOrUndef(Expected(y, fl, s), ObsY(net, o.y, s), Tol, ScaleOf(net, par, xc, u, d, s))}
           defined == Defined(net, xc) /\ Admissible(net, xc, u, d)
           nonfinite == IF defined THEN {s \in StateSlots(net) : ~RIsFinite(ObsY(net, o.y, s))} ELSE {}
           \* balances hold for ANY state (negative ones too): only the model's own 0/0 and non-finite values are excluded
           plain == opts = NoOpts /\ Defined(net, xc) /\ AllFinite(y) /\ AllFinite(yo)
           \* network-wide balance on the implementation's own inputs and outputs
           sumabs == Sum(Links(net), LAMBDA l : Sum(Segs(net, l), LAMBDA i : RAbs((yo.rho[l][i] (.) net.links[l].lam) (.) net.links[l].L)))
                     (+) Sum(Queued(net), LAMBDA q : RAbs(yo.w[q])) (+) RAbs(Balance(net, par, x, u, d))
           cons == RClose(Vehicles(net, yo) (-) Vehicles(net, x), Balance(net, par, x, u, d), Tol, sumabs)
           \* per node: inflows of the leaving links recovered from the density update, origin flow from the queue update
           QUp(l) == (((yo.rho[l][1] (-) x.rho[l][1]) (.) net.links[l].lam) (.) net.links[l].L) (/) par.T (+) Flow(net, x, l, 1)
           QOrig(q) == IF q \in Queued(net) THEN d.o[q] (-) ((yo.w[q] (-) x.w[q]) (/) par.T) ELSE Flow(net, x, OLink(net, q), 1)
           NodeBal(n) ==
             LET lhs == Sum(Out(net, n), QUp)
                 rhs == Sum(In(net, n), LAMBDA m : LastFlow(net, x, m)) (+) Sum(OrigAt(net, n), QOrig)
                 sc == Sum(Out(net, n), LAMBDA l : RAbs(QUp(l)) (+) (((RAbs(yo.rho[l][1]) (.) net.links[l].lam) (.) net.links[l].L) (/) par.T))
                       (+) Sum(OrigAt(net, n), LAMBDA q : IF q \in Queued(net) THEN RAbs(yo.w[q]) (/) par.T (+) RAbs(d.o[q]) ELSE Zero)
             IN RClose(lhs, rhs, Tol, sc)
           \* C11 on the code alone: step(opts, x) = clamp_next(step(no options, clamp_init(x))), bit for bit
           pl == r.obs.np_plain
           Flag(s) == CASE s[1] = "rho" -> opts.pnd [] s[1] = "v" -> opts.pns [] s[1] = "w" -> opts.pnq
           meta == IF pl.has /\ pl.ok
                   THEN {s \in StateSlots(net) : ~RIsNaN(ObsY(net, pl.y, s)) /\
                           ObsY(net, o.y, s) # (IF Flag(s) THEN Pos(ObsY(net, pl.y, s)) ELSE ObsY(net, pl.y, s))}
                   ELSE {}
           \* C17 on the NumPy engine: the origin flow recovered from the queue update respects the limits
           TolS(z) == Tol (.) Mx(One, z)
           bnd == IF defined /\ ~opts.pnq
                  THEN {q \in Queued(net) : net.origins[q].kind # "simp_unlimited" /\
                          LET qf == d.o[q] (-) ((yo.w[q] (-) xc.w[q]) (/) par.T)
                              og == net.origins[q]  lk == net.links[OLink(net, q)]
                              dem == Demand(par, xc, d, q)
                              slack == TolS(Mx(dem, RAbs(xc.w[q]) (/) par.T))
                          IN ~( /\ RLe(RNeg(slack), qf)
                                /\ RLe(qf, dem (+) slack)
                                /\ og.kind = "mainstream" => RLe(qf, QCap(lk) (+) slack)
                                /\ og.kind # "mainstream" => RLe(qf, og.C (+) slack)
                                /\ (og.kind # "mainstream" /\ xc.rho[OLink(net, q)][1] = lk.rho_max) => RLe(RAbs(qf), slack)
                                /\ RLe(RNeg(TolS(ScaleW(net, par, xc, u, d, q))), yo.w[q]) )}
                  ELSE {}
           \* C05 on the NumPy engine: the flows the elements report when asked after the step are the flows of the step
           ofl == o.flows
           FlowSlots == {<<"q", l, i>> : l \in Links(net), i \in 1..12} \cup {<<"qo", q, 1>> : q \in DOMAIN net.origins}
           ObsFlow(s) == IF s[1] = "q" THEN P(ofl.q[s[2]][s[3]]) ELSE P(ofl.qo[s[2]])
           flw == IF ~ofl.has THEN {}
                  ELSE {s \in {s \in FlowSlots : s[1] = "qo" \/ s[3] \in Segs(net, s[2])} :
                          ~CloseOrUndef(Expected(y, fl, s), ObsFlow(s), Tol, Zero)}
           \* C12: stepping again from the same (caller-owned) values gives identical next states; nothing supplied was modified
           rep == IF o.pure.has
                  THEN {s \in StateSlots(net) : ~(RIsNaN(ObsY(net, o.y, s)) /\ RIsNaN(ObsY(net, o.pure.y2, s))) /\ ObsY(net, o.y, s) # ObsY(net, o.pure.y2, s)}
                       \cup {s \in StateSlots(net) : ~(RIsNaN(ObsY(net, o.y, s)) /\ RIsNaN(ObsY(net, o.pure.y3, s))) /\ ObsY(net, o.y, s) # ObsY(net, o.pure.y3, s)}
                       \* the same array OBJECTS refilled in place with other values vs. fresh arrays with those values on a fresh network
                       \cup {s \in StateSlots(net) : ~(RIsNaN(ObsY(net, o.pure.y4, s)) /\ RIsNaN(ObsY(net, o.pure.y5, s))) /\ ObsY(net, o.pure.y4, s) # ObsY(net, o.pure.y5, s)}
                  ELSE {}
           \* C11 / C12: next-state objects fed back after being disturbed in place vs fresh arrays holding the same values
           ofb == o.feedback
           \* (pair "fed-back"); omitted variables created by the engine of THIS step whatever engine stepped before (pair "fill")
           fbk == IF ~ofb.has THEN {}
                  ELSE UNION {{<<ofb.pairs[k].name, s>> : s \in {s \in StateSlots(net) :
                                  ~(RIsNaN(ObsY(net, ofb.pairs[k].ya, s)) /\ RIsNaN(ObsY(net, ofb.pairs[k].yb, s)))
                                  /\ ObsY(net, ofb.pairs[k].ya, s) # ObsY(net, ofb.pairs[k].yb, s)}} : k \in DOMAIN ofb.pairs}
       IN {<<"np.y", s>> : s \in mism}
          \cup {<<"np.feedback", s[1], s[2]>> : s \in fbk}
          \cup (IF ~ofb.has /\ ofb.err # "" THEN {<<"np.feedback_ok", ofb.err>>} ELSE {})
          \cup {<<"np.flow", s>> : s \in flw}
          \cup (IF ~ofl.has /\ ofl.err # "" THEN {<<"np.flow_ok", ofl.err>>} ELSE {})
          \cup {<<"np.repeat", s>> : s \in rep}
          \cup (IF o.pure.has THEN {<<"np.heap", o.pure.changed[k]>> : k \in DOMAIN o.pure.changed} ELSE {})
          \cup {<<"np.bounds", q>> : q \in bnd}
          \cup {<<"np.meta", s>> : s \in meta}
          \cup (IF pl.has /\ ~pl.ok THEN {<<"np.ok", pl.err>>} ELSE {})
          \cup {<<"np.finite", s>> : s \in nonfinite}
          \cup (IF ~o.shapes THEN {<<"np.shapes", "">>} ELSE {})
          \cup (IF plain /\ mism = {} /\ ~cons THEN {<<"np.cons", "">>} ELSE IF plain /\ ~cons THEN {<<"np.cons", "">>} ELSE {})
          \cup (IF plain THEN {<<"np.nodecons", n>> : n \in {n \in NodesOf(net) : Out(net, n) # {} /\ ~NodeBal(n)}} ELSE {})

\* ---- theorems of the model on this input -----------------------------------------------------
ModelFails(r, net, par, opts, x, u, d, elems) ==
  LET xc == ClampInit(opts, x)
      defined == Defined(net, xc) /\ Admissible(net, xc, u, d)
      y == Step(net, par, xc, u, d)
  IN (IF ~ValidNet(net) THEN {<<"model.valid", "">>} ELSE {})
     \cup (IF RIsFinite(Vehicles(net, y)) /\ ~NetworkConserves(net, par, xc, u, d) THEN {<<"model.cons", "">>} ELSE {})
     \cup {<<"model.nodecons", n>> : n \in {n \in NodesOf(net) : RIsFinite(NodeInflow(net, par, xc, u, d, n)) /\ ~NodeConserves(net, par, xc, u, d, n)}}
     \cup (IF defined /\ ~AllFinite(y) THEN {<<"model.finite", "">>} ELSE {})
     \cup (IF defined THEN {<<"model.bounds", q>> : q \in {q \in Queued(net) : ~OriginBounds(net, par, xc, u, d, q)}} ELSE {})
     \* (the layout theorems are about the network's own element order: nothing to say when the library did not report one)
     \cup (IF ~r.obs.elements_ok \/ \A c \in {0, 1, 2} : NothingMissing(net, elems, c) /\ FeedBack(net, elems, c) THEN {} ELSE {<<"model.layout", "">>})
     \cup (IF ~r.obs.elements_ok \/ SameUpToConcat(net, elems) THEN {} ELSE {<<"model.concat", "">>})
     \cup (IF StepOpt(net, par, NoOpts, x, u, d) = Step(net, par, x, u, d) THEN {} ELSE {<<"model.noopts", "">>})

\* ---- compiled functions (C03, C04, C05, C16, C17) -------------------------------------------------
\* initial states supplied by the caller as expressions g(s) of its own symbols s (the function's arguments)
Pre(t, z) == CASE t = "fmaxm20" -> RMax(RQ(-20, 1), z) [] t = "affine" -> (RQ(2, 1) (.) z) (-) RQ(3, 1) [] OTHER -> z
SlotPairs(lay, args) == UNION {{<<lay[j].slots[i], args[j][i]>> : i \in DOMAIN lay[j].slots} : j \in DOMAIN lay}
FnFails(r, k, net0, par0, opts, elems) ==
  LET f == r.obs.fn[k]
      tag == <<f.sym, f.compact, f.more_out, Len(f.params)>>
  IN IF ~f.ok THEN {<<"fn.ok", tag, f.err>>}
     ELSE
       LET pnames == [j \in DOMAIN f.params |-> f.params[j].name]
           lin == LayoutIn(net0, elems, f.compact, pnames)
           lout == LayoutOut(net0, elems, f.compact, f.more_out)
           namesOK == ~f.check_names \/ (f.name_in = Names(lin) /\ f.name_out = Names(lout))
           shapeOK == namesOK /\ f.size_in = Sizes(lin) /\ f.size_out = Sizes(lout)
       IN (IF f.free # 0 THEN {<<"fn.free", tag, f.free>>} ELSE {})
          \cup (IF f.check_names /\ f.name_in # Names(lin) THEN {<<"fn.name_in", tag, Names(lin)>>} ELSE {})
          \cup (IF f.size_in # Sizes(lin) THEN {<<"fn.size_in", tag, Sizes(lin)>>} ELSE {})
          \cup (IF f.check_names /\ f.name_out # Names(lout) THEN {<<"fn.name_out", tag, Names(lout)>>} ELSE {})
          \cup (IF f.size_out # Sizes(lout) THEN {<<"fn.size_out", tag, Sizes(lout)>>} ELSE {})
          \cup UNION {
            IF ~shapeOK THEN {} ELSE
            LET c == f.calls[ci]
                pairs == SlotPairs(lin, c.args)
                Val(s) == P((CHOOSE p \in pairs : p[1] = s)[2])
                PV(kind, el, dflt) ==
                  IF \E j \in DOMAIN f.params : f.params[j].kind = kind /\ f.params[j].el \in {el, "*"}
                  THEN Val(<<"p", f.params[CHOOSE j \in DOMAIN f.params : f.params[j].kind = kind /\ f.params[j].el \in {el, "*"}].name, 1>>)
                  ELSE dflt
                net == [net0 EXCEPT
                          !.links = [l \in DOMAIN net0.links |->
                             [net0.links[l] EXCEPT !.rho_crit = PV("rho_crit", l, @), !.v_free = PV("v_free", l, @), !.a = PV("a", l, @),
                                                   !.rho_max = PV("rho_max", l, @), !.lam = PV("lam", l, @), !.L = PV("L", l, @),
                                                   !.beta = PV("beta", l, @)]],
                          !.origins = [o \in DOMAIN net0.origins |-> [net0.origins[o] EXCEPT !.C = PV("C", o, @)]]]
                par == [par0 EXCEPT !.T = PV("T", "*", @), !.tau = PV("tau", "*", @), !.eta = PV("eta", "*", @), !.kappa = PV("kappa", "*", @),
                                    !.delta = PV("delta", "*", @), !.phi = PV("phi", "*", @)]
                x == [rho |-> [l \in Links(net) |-> [i \in Segs(net, l) |-> Pre(f.pre, Val(<<"rho", l, i>>))]],
                      v   |-> [l \in Links(net) |-> [i \in Segs(net, l) |-> Pre(f.pre, Val(<<"v", l, i>>))]],
                      w   |-> [o \in Queued(net) |-> Pre(f.pre, Val(<<"w", o, 1>>))]]
                u == [vctrl |-> [l \in CtlLinks(net) |-> [j \in 1..Cardinality(net.links[l].vsl) |-> Val(<<"vc", l, j>>)]],
                      o |-> [o \in Queued(net) |-> Val(<<"uo", o, 1>>)]]
                d == [o |-> [o \in Queued(net) |-> Val(<<"do", o, 1>>)], dest |-> [q \in Congested(net) |-> Val(<<"dd", q, 1>>)]]
                xc == ClampInit(opts, x)
                y == StepOpt(net, par, opts, x, u, d)
                fl == FlowsOut(net, par, opts, x, u, d)
                Got(j, i) == P(c.outs[j][i])
                bad == {<<j, i>> \in UNION {{<<j, i>> : i \in DOMAIN lout[j].slots} : j \in DOMAIN lout} :
                          ~CloseOrUndef(Expected(y, fl, lout[j].slots[i]), Got(j, i), Tol, ScaleOf(net, par, xc, u, d, lout[j].slots[i]))}
                opairs == UNION {{<<lout[j].slots[i], Got(j, i)>> : i \in DOMAIN lout[j].slots} : j \in DOMAIN lout}
                OutV(s) == (CHOOSE p \in opairs : p[1] = s)[2]
                defined == Defined(net, xc) /\ Admissible(net, xc, u, d)
                \* C05 identities on the function's own outputs (no clamping of next queue/density)
                qid == IF f.more_out
                       THEN {o \in Queued(net) : ~opts.pnq /\
                               ~RClose(OutV(<<"w", o, 1>>), xc.w[o] (+) (par.T (.) (d.o[o] (-) OutV(<<"qo", o, 1>>))), Tol,
                                       Mx(RAbs(xc.w[o]), Mx(RAbs(par.T (.) d.o[o]), RAbs(par.T (.) OutV(<<"qo", o, 1>>)))))}
                       ELSE {}
                lid == IF f.more_out
                       THEN {<<l, i>> \in UNION {{<<l, i>> : i \in Segs(net, l)} : l \in Links(net)} :
                               ~RClose(OutV(<<"q", l, i>>), (xc.rho[l][i] (.) xc.v[l][i]) (.) net.links[l].lam, Tol, Zero)}
                       ELSE {}
                \* density balance of the link an origin feeds, when the origin is the node's only inflow
                fid == IF f.more_out
                       THEN {o \in Origins(net) : In(net, net.origins[o].node) = {} /\ ~opts.pnd /\
                               LET l == OLink(net, o)  cc == (par.T (/) net.links[l].lam) (/) net.links[l].L
                               IN ~RClose(OutV(<<"rho", l, 1>>), xc.rho[l][1] (+) (cc (.) (OutV(<<"qo", o, 1>>) (-) OutV(<<"q", l, 1>>))), Tol,
                                          Mx(RAbs(xc.rho[l][1]), Mx(RAbs(cc (.) OutV(<<"qo", o, 1>>)), RAbs(cc (.) OutV(<<"q", l, 1>>)))))}
                       ELSE {}
                \* C17 on the implementation's outputs
                TolS(s) == Tol (.) Mx(One, s)
                bnd == IF f.more_out /\ defined
                       THEN {o \in Queued(net) : net.origins[o].kind # "simp_unlimited" /\
                               LET q == OutV(<<"qo", o, 1>>)  og == net.origins[o]  lk == net.links[OLink(net, o)]
                               IN ~( /\ RLe(Zero, q)
                                     /\ RLe(q, Demand(par, xc, d, o) (+) TolS(Demand(par, xc, d, o)))
                                     /\ og.kind = "mainstream" => RLe(q, QCap(lk) (+) TolS(QCap(lk)))
                                     /\ og.kind # "mainstream" => RLe(q, og.C)
                                     /\ (og.kind # "mainstream" /\ xc.rho[OLink(net, o)][1] = lk.rho_max) => q = Zero
                                     /\ (~opts.pnq) => RLe(RNeg(TolS(ScaleW(net, par, xc, u, d, o))), OutV(<<"w", o, 1>>)) )}
                       ELSE {}
                \* C07: finite results on the defined admissible domain
                nonfin == IF defined THEN {b \in UNION {{<<j, i>> : i \in DOMAIN lout[j].slots} : j \in DOMAIN lout} : ~RIsFinite(Got(b[1], b[2]))} ELSE {}
                \* C03: the same values through the NumPy engine (recorded in obs.np) give the same next states
                vsnp == IF c.byname /\ r.obs.np.has /\ r.obs.np.ok
                        THEN {s \in StateSlots(net) : ~RIsNaN(Expected(y, fl, s)) /\
                                ~RClose(OutV(s), ObsY(net, r.obs.np.y, s), TolX, ScaleOf(net, par, xc, u, d, s))}
                        ELSE {}
                \* C02 on the function's own inputs and outputs (x+, q, q_o)
                yo0 == [rho |-> [l \in Links(net) |-> [i \in Segs(net, l) |-> OutV(<<"rho", l, i>>)]],
                        v |-> [l \in Links(net) |-> [i \in Segs(net, l) |-> OutV(<<"v", l, i>>)]],
                        w |-> [o \in Queued(net) |-> OutV(<<"w", o, 1>>)]]
                plain == f.more_out /\ opts = NoOpts /\ Defined(net, xc) /\ AllFinite(y) /\ AllFinite(yo0)
                yo == [rho |-> [l \in Links(net) |-> [i \in Segs(net, l) |-> OutV(<<"rho", l, i>>)]],
                       v |-> [l \in Links(net) |-> [i \in Segs(net, l) |-> OutV(<<"v", l, i>>)]],
                       w |-> [o \in Queued(net) |-> OutV(<<"w", o, 1>>)]]
                bal == par.T (.) ((Sum(Queued(net), LAMBDA o : d.o[o]) (+) Sum(Origins(net) \ Queued(net), LAMBDA o : OutV(<<"qo", o, 1>>)))
                                  (-) Sum(ExitLinks(net), LAMBDA l : OutV(<<"q", l, net.links[l].N>>)))
                sumabs == Sum(Links(net), LAMBDA l : Sum(Segs(net, l), LAMBDA i : RAbs((yo.rho[l][i] (.) net.links[l].lam) (.) net.links[l].L)))
                          (+) Sum(Queued(net), LAMBDA o : RAbs(yo.w[o])) (+) RAbs(bal)
                cons == ~plain \/ RClose(Vehicles(net, yo) (-) Vehicles(net, x), bal, Tol, sumabs)
                QUp(l) == (((yo.rho[l][1] (-) x.rho[l][1]) (.) net.links[l].lam) (.) net.links[l].L) (/) par.T (+) OutV(<<"q", l, 1>>)
                NodeBal(n) ==
                  LET lhs == Sum(Out(net, n), QUp)
                      rhs == Sum(In(net, n), LAMBDA m : OutV(<<"q", m, net.links[m].N>>)) (+) Sum(OrigAt(net, n), LAMBDA o : OutV(<<"qo", o, 1>>))
                      sc == Sum(Out(net, n), LAMBDA l : RAbs(QUp(l)) (+) (((RAbs(yo.rho[l][1]) (.) net.links[l].lam) (.) net.links[l].L) (/) par.T))
                  IN RClose(lhs, rhs, Tol, sc)
                nodebad == IF plain THEN {n \in NodesOf(net) : Out(net, n) # {} /\ ~NodeBal(n)} ELSE {}
            IN {<<"fn.out", tag, ci, lout[b[1]].slots[b[2]]>> : b \in bad}
               \cup {<<"fn.finite", tag, ci, lout[b[1]].slots[b[2]]>> : b \in nonfin}
               \cup {<<"fn.vs_np", tag, ci, s>> : s \in vsnp}
               \cup (IF cons THEN {} ELSE {<<"fn.cons", tag, ci, "">>})
               \cup {<<"fn.nodecons", tag, ci, n>> : n \in nodebad}
               \cup {<<"fn.queue_identity", tag, ci, o>> : o \in qid}
               \cup {<<"fn.flow_identity", tag, ci, t>> : t \in lid}
               \cup {<<"fn.feed_identity", tag, ci, o>> : o \in fid}
               \cup {<<"fn.bounds", tag, ci, o>> : o \in bnd}
            : ci \in DOMAIN f.calls}

\* ---- locality (C10) ----------------------------------------------------------------------------
\* structural non-zeros of the Jacobian of a level-0 function: [oa, oi, ia, ii] (1-based argument / element positions)
JacFails(r, net, par, elems) ==
  UNION {
    LET jr == r.obs.jac[k]
        lin == LayoutIn(net, elems, 0, <<>>)
        lout == LayoutOut(net, elems, 0, FALSE)
    IN IF ~jr.ok THEN {<<"jac.ok", jr.sym, jr.err>>} ELSE
       {<<"jac", jr.sym, lout[e[1]].slots[e[2]], lin[e[3]].slots[e[4]]>> :
          e \in {e \in RangeOf(jr.nz) : lin[e[3]].slots[e[4]] \notin Deps(net, par, lout[e[1]].slots[e[2]])}}
    : k \in DOMAIN r.obs.jac}
\* numeric perturbation of one input slot: the outputs that changed
SensFails(r, net, par) ==
  UNION {
    LET sr == r.obs.sens[k]
        sin == <<sr.slot[1], sr.slot[2], sr.slot[3]>>
    IN {<<"sens", sr.engine, <<c[1], c[2], c[3]>>, sin>> :
          c \in {c \in RangeOf(sr.changed) : sin \notin Deps(net, par, <<c[1], c[2], c[3]>>)}}
    : k \in DOMAIN r.obs.sens}

\* ---- neutral controls (C18): the case against its uncontrolled twin ------------------------------------------
YOf(j) == [rho |-> [l \in DOMAIN j.rho |-> PSeq(j.rho[l])], v |-> [l \in DOMAIN j.v |-> PSeq(j.v[l])], w |-> [q \in DOMAIN j.w |-> P(j.w[q])]]
TwinRel(net, u, expect, s, base, twin, tol, scale) ==
  \/ RIsNaN(base) /\ RIsNaN(twin)
  \/ LET limited == s[1] = "v" /\ net.links[s[2]].ctl /\ s[3] \in net.links[s[2]].vsl
          \* a limited segment whose own limit is infinite behaves like a plain one
          finite == limited /\ RIsFinite(u.vctrl[s[2]][VslIndex(net.links[s[2]], s[3])])
     IN IF expect = "equal" \/ ~finite
        THEN RClose(base, twin, tol, scale)
        ELSE RLe(base, twin (+) (tol (.) Mx(One, Mx(RAbs(twin), scale))))
TwinFails(r, net, par, opts, x, u, d) ==
  IF r.twin.expect = "none" \/ ~r.obs.twin.has THEN {}
  ELSE IF ~r.obs.twin.ok THEN {<<"twin.ok", r.obs.twin.err>>}
  ELSE
    LET tnet == Net([net |-> r.twin.net])
        tu == U(r.twin.u)
        xc == ClampInit(opts, x)
        yb == StepOpt(net, par, opts, x, u, d)
        yt == StepOpt(tnet, par, opts, x, tu, d)
        Val(y, s) == CASE s[1] = "rho" -> y.rho[s[2]][s[3]] [] s[1] = "v" -> y.v[s[2]][s[3]] [] s[1] = "w" -> y.w[s[2]]
        model == {s \in StateSlots(net) : ~TwinRel(net, u, r.twin.expect, s, Val(yb, s), Val(yt, s), Zero, Zero)}
        Pairs == {<<"np", r.obs.np.y, r.obs.twin.np>>} \cup {<<r.obs.twin.fn[k].sym, r.obs.twin.fn[k].base, r.obs.twin.fn[k].twin>> : k \in DOMAIN r.obs.twin.fn}
    IN {<<"model.twin", s>> : s \in model}
       \cup UNION {{<<"twin.y", pr[1], s>> : s \in {s \in StateSlots(net) :
                       ~TwinRel(net, u, r.twin.expect, s, ObsY(net, pr[2], s), ObsY(net, pr[3], s), TolX, ScaleOf(net, par, xc, u, d, s))}} : pr \in Pairs}

\* turn-rate scaling (C14): the record's network has the turn rates of every node scaled; base_beta are the originals
ScaleFails(r, net, par, opts, x, u, d) ==
  (IF r.rel.kind # "scale" THEN {}
   ELSE LET bnet == [net EXCEPT !.links = [l \in DOMAIN net.links |-> [net.links[l] EXCEPT !.beta = P(r.rel.base_beta[l])]]]
        IN IF StepOpt(bnet, par, opts, x, u, d) = StepOpt(net, par, opts, x, u, d) THEN {} ELSE {<<"model.scale", "">>})
  \cup
  \* the related network (other construction order / names / scaled turn rates) stepped by the real library
  \* from the same values gives the same next states as the base network did
  (IF r.rel.kind = "none" \/ ~r.rel.has_base \/ ~r.obs.np.has \/ ~r.obs.np.ok THEN {}
   ELSE LET xc == ClampInit(opts, x)
        IN {<<"rel.y", r.rel.kind, s>> : s \in {s \in StateSlots(net) :
              ~(RIsNaN(ObsY(net, r.rel.base_y, s)) /\ RIsNaN(ObsY(net, r.obs.np.y, s))) /\
              ~RClose(ObsY(net, r.obs.np.y, s), ObsY(net, r.rel.base_y, s), TolX, ScaleOf(net, par, xc, u, d, s))}})

\* ---- explicit engines (C13) on this topology: the selected (recording) engine computed nothing, every variable and
\* next state has the explicit engine's kind, the selection is untouched
SpyFails(r) ==
  UNION {LET sp == r.obs.spy[k]  tag == <<sp.selected, sp.explicit>>
         IN (IF ~sp.ok THEN {<<"spy.ok", tag, sp.err>>} ELSE {})
            \cup (IF sp.log # <<>> THEN {<<"spy.selected_engine_computed", tag, sp.log>>} ELSE {})
            \cup (IF sp.ok /\ ~sp.selection_kept THEN {<<"spy.selection_changed", tag, "">>} ELSE {})
            \cup (IF sp.ok /\ RangeOf(sp.kinds) \notin {{}, {sp.explicit}} THEN {<<"spy.kinds", tag, sp.kinds>>} ELSE {})
         : k \in DOMAIN r.obs.spy}

\* ---- the verdict on one record ----------------------------------------------------------------------
Verdict(r) ==
  LET net == Net(r)  par == Par(r)  opts == r.opts  x == X(r.x)  u == U(r.u)  d == D(r.d)
      elems == r.obs.elements
      fails == (IF r.obs.valid THEN {} ELSE {<<"valid", r.obs.nmsgs>>})
               \cup (IF r.obs.elements_ok THEN {} ELSE {<<"elements", "">>})
               \cup ModelFails(r, net, par, opts, x, u, d, elems)
               \cup NpFails(r, net, par, opts, x, u, d)
               \cup UNION {FnFails(r, k, net, par, opts, elems) : k \in DOMAIN r.obs.fn}
               \cup JacFails(r, net, par, elems)
               \cup SensFails(r, net, par)
               \cup TwinFails(r, net, par, opts, x, u, d)
               \cup SpyFails(r)
               \cup ScaleFails(r, net, par, opts, x, u, d)
               \cup {<<"step.ok", r.obs.steps[k].engine, r.obs.steps[k].err>> : k \in {k \in DOMAIN r.obs.steps : ~r.obs.steps[k].ok}}
  IN [id |-> r.id, fails |-> fails,
      sig |-> BranchSig(net, par, ClampInit(opts, x), u, d),
      pats |-> {LocalPattern(net, par, l) : l \in Links(net)},
      defined |-> Defined(net, ClampInit(opts, x)) /\ Admissible(net, ClampInit(opts, x), u, d)]

VARIABLE l
Init == l = 1
Next == /\ l <= Len(Trace)
        /\ PrintT("VERDICT " \o ToJson(Verdict(Trace[l])))
        /\ l' = l + 1
=============================================================================

--------------------------------- MODULE Laws ---------------------------------
(***************************************************************************)
(* The scalar laws of METANET (Hegyi 2004), one operator per primitive of  *)
(* the engine interface of sym-metanet.  Metanet.tla composes them into    *)
(* the network step; Prim.tla checks both engines against them one by one  *)
(* (C15).  All arguments and results are extended exact rationals (Real).  *)
(***************************************************************************)
EXTENDS Integers, Sequences, FiniteSets, Real

\* (3.1) q = rho v lambda
PFlow(rho, v, lam) == (rho (.) v) (.) lam
\* (3.2) rho+ = rho + T / (lam L) (q_up - q)
PStepDensity(rho, q, qup, lam, L, T) == rho (+) (((T (/) lam) (/) L) (.) (qup (-) q))
\* (3.4) V(rho) = v_free exp(-1/a (rho / rho_crit)^a)
PVeq(rho, v_free, rho_crit, a) == v_free (.) RExp(RNeg(One (/) a) (.) RPow(rho (/) rho_crit, a))
\* (3.11) V limited by the displayed speed (1 + alpha) v_ctrl
PCtrlVeq(rho, vctrl, alpha, v_free, rho_crit, a) == RMin(PVeq(rho, v_free, rho_crit, a), (One (+) alpha) (.) vctrl)
\* (3.3) terms
PRelax(v, Veq, tau, T) == (T (/) tau) (.) (Veq (-) v)
PConvect(v, vup, L, T) == ((T (.) v) (/) L) (.) (vup (-) v)
PAnticip(rho, rdn, L, tau, eta, kappa, T) == (((eta (.) T) (/) tau) (.) (rdn (-) rho)) (/) (L (.) (rho (+) kappa))
\* (3.7) merging, (3.8) lane drop
PMerge(v, rho, qramp, lam, L, delta, kappa, T) == (((delta (.) T) (.) qramp) (.) v) (/) ((L (.) lam) (.) (rho (+) kappa))
PDrop(v, rho, dlam, lam, L, phi, rho_crit, T) == ((((phi (.) T) (.) dlam) (.) rho) (.) (v (.) v)) (/) ((L (.) lam) (.) rho_crit)
\* (3.3): v+ = v + relaxation + convection - anticipation [- merging] [- lane drop]
PStepSpeed(v, vup, rho, rdn, Veq, lam, L, tau, eta, kappa, T, merge, drop) ==
  ((((v (+) PRelax(v, Veq, tau, T)) (+) PConvect(v, vup, L, T)) (-) PAnticip(rho, rdn, L, tau, eta, kappa, T)) (-) merge) (-) drop

\* queue: w+ = w + T (d - q)
PStepQueue(w, d, q, T) == w (+) (T (.) (d (-) q))
PDemand(d, w, T) == d (+) (w (/) T)
PTerm3(rho_max, rho_first, rho_crit) == (rho_max (-) rho_first) (/) (rho_max (-) rho_crit)
\* (3.5) "in": min(d + w/T, C min(r, term3));  (3.6) "out": r min(d + w/T, C min(1, term3))
PRampFlow(type, d, w, C, r, rho_max, rho_first, rho_crit, T) ==
  IF type = "in" THEN RMin(PDemand(d, w, T), C (.) RMin(r, PTerm3(rho_max, rho_first, rho_crit)))
  ELSE r (.) RMin(PDemand(d, w, T), C (.) RMin(One, PTerm3(rho_max, rho_first, rho_crit)))
\* simplified ramp: the desired flow, limited (or not) by demand and space
PSimpFlow(type, qdes, d, w, C, rho_max, rho_first, rho_crit, T) ==
  IF type = "unlimited" THEN qdes
  ELSE RMin(qdes, RMin(PDemand(d, w, T), C (.) RMin(One, PTerm3(rho_max, rho_first, rho_crit))))
\* mainstream origin (section 3.3.3).  Named deviation RatioGuard: the library clamps v_lim / v_free into [0.05, 1]
RatioGuard(r) == RMax(RQ(1, 20), RMin(One, r))
PVcrit(v_free, rho_crit, a) == PVeq(rho_crit, v_free, rho_crit, a)
PQCap(lam, v_free, rho_crit, a) == (lam (.) PVcrit(v_free, rho_crit, a)) (.) rho_crit
PQSpeed(vlim, ratio, lam, rho_crit, a) == ((lam (.) vlim) (.) rho_crit) (.) RPow(RNeg(a) (.) RLn(ratio), One (/) a)
PMainLimit(vlim, lam, v_free, rho_crit, a) ==
  IF RLt(vlim, PVcrit(v_free, rho_crit, a)) THEN PQSpeed(vlim, RatioGuard(vlim (/) v_free), lam, rho_crit, a)
  ELSE PQCap(lam, v_free, rho_crit, a)
PMainLimitThesis(vlim, lam, v_free, rho_crit, a) ==     \* the thesis form, without the guard
  IF RLt(vlim, PVcrit(v_free, rho_crit, a)) THEN PQSpeed(vlim, vlim (/) v_free, lam, rho_crit, a)
  ELSE PQCap(lam, v_free, rho_crit, a)
PMainFlow(d, w, vctrl, vfirst, rho_crit, a, v_free, lam, T) ==
  RMin(PDemand(d, w, T), PMainLimit(RMin(vctrl, vfirst), lam, v_free, rho_crit, a))

\* destinations: min(rho_N, rho_crit) and max(min(rho_N, rho_crit), d)
PDestFree(rho_last, rho_crit) == RMin(rho_last, rho_crit)
PDestCongested(rho_last, rho_dest, rho_crit) == RMax(RMin(rho_last, rho_crit), rho_dest)

\* node rules on sequences of values (section 3.2.2, eqs. 3.9, 3.10)
RECURSIVE SeqSum(_)
SeqSum(s) == IF s = <<>> THEN Zero ELSE Head(s) (+) SeqSum(Tail(s))
PUpFlow(qlasts, beta, betas, qorig) == (beta (/) SeqSum(betas)) (.) (SeqSum(qlasts) (+) qorig)
PUpSpeed(qlasts, vlasts) == SeqSum([i \in DOMAIN qlasts |-> vlasts[i] (.) qlasts[i]]) (/) SeqSum(qlasts)
PDownDensity(rhofirsts) == SeqSum([i \in DOMAIN rhofirsts |-> rhofirsts[i] (.) rhofirsts[i]]) (/) SeqSum(rhofirsts)
=============================================================================

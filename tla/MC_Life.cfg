CONSTANTS MaxDepth = 3
 Profile = "ready"
 EmitOn = FALSE
INIT Init
NEXT Next
VIEW View
CONSTRAINT Bound
ACTION_CONSTRAINT Step
CHECK_DEADLOCK FALSE

INIT Init
NEXT Next

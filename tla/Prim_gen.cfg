CONSTANTS Mode = "gen"
 Level = 1
INIT Init
NEXT Next
CHECK_DEADLOCK FALSE

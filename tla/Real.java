import tlc2.value.impl.*;
import tlc2.value.IValue;
import tlc2.util.FP64;
import java.math.BigInteger;
import java.math.BigDecimal;
import java.math.MathContext;
import java.util.ArrayList;

/**
 * TLC operator overrides for module Real: exact extended rationals.
 *
 * A value is a tuple <<num, den>> of two limb tuples. A limb tuple is
 * <<sign, l0, l1, ...>> with sign in {-1,0,1} and base-10^9 limbs (least
 * significant first), so that TLC's 32-bit integers never overflow.
 * Normal form: gcd(num, den) = 1 and den >= 0;  den = 0 encodes +inf (1/0),
 * -inf (-1/0) and the absorbing undefined value NaN (0/0).
 *
 * +,-,*,/ ,min,max,comparisons are exact (BigInteger). exp, ln, pow go through
 * StrictMath on the nearest double and the double result is converted back to
 * the exact rational it denotes (relative error about 2^-52).
 */
public class Real {
  static final BigInteger BASE = BigInteger.valueOf(1000000000L);
  static final BigInteger ZERO = BigInteger.ZERO, ONE = BigInteger.ONE;

  static BigInteger fromLimbs(Value v) {
    TupleValue t = (TupleValue) v.toTuple();
    int sgn = ((IntValue) t.elems[0]).val;
    BigInteger r = ZERO;
    for (int i = t.elems.length - 1; i >= 1; i--)
      r = r.multiply(BASE).add(BigInteger.valueOf(((IntValue) t.elems[i]).val));
    return sgn < 0 ? r.negate() : r;
  }

  static Value toLimbs(BigInteger b) {
    int sgn = b.signum();
    b = b.abs();
    ArrayList<Value> l = new ArrayList<>();
    l.add(IntValue.gen(sgn));
    while (b.signum() > 0) {
      BigInteger[] qr = b.divideAndRemainder(BASE);
      l.add(IntValue.gen(qr[1].intValue()));
      b = qr[0];
    }
    return new TupleValue(l.toArray(new Value[0]));
  }

  static BigInteger[] get(Value v) {
    TupleValue t = (TupleValue) v.toTuple();
    return new BigInteger[] {fromLimbs(t.elems[0]), fromLimbs(t.elems[1])};
  }

  static Value mk(BigInteger n, BigInteger d) {
    if (d.signum() == 0) {
      n = BigInteger.valueOf(n.signum());
    } else {
      if (d.signum() < 0) { n = n.negate(); d = d.negate(); }
      BigInteger g = n.gcd(d);
      if (g.signum() > 0 && !g.equals(ONE)) { n = n.divide(g); d = d.divide(g); }
    }
    return new TupleValue(new Value[] {toLimbs(n), toLimbs(d)});
  }

  static final Value NAN = mk(ZERO, ZERO);
  static boolean isNaN(BigInteger[] x) { return x[1].signum() == 0 && x[0].signum() == 0; }
  static boolean isInf(BigInteger[] x) { return x[1].signum() == 0 && x[0].signum() != 0; }

  static double toDouble(BigInteger[] x) {
    if (x[1].signum() == 0)
      return x[0].signum() > 0 ? Double.POSITIVE_INFINITY
           : (x[0].signum() < 0 ? Double.NEGATIVE_INFINITY : Double.NaN);
    if (x[0].signum() == 0) return 0.0;
    // correctly rounded enough: 40 significant digits then to double
    return new BigDecimal(x[0]).divide(new BigDecimal(x[1]), new MathContext(40)).doubleValue();
  }

  static Value fromDouble(double v) {
    if (Double.isNaN(v)) return NAN;
    if (Double.isInfinite(v)) return mk(BigInteger.valueOf(v > 0 ? 1 : -1), ZERO);
    BigDecimal e = new BigDecimal(v);  // exact
    int sc = Math.max(0, e.scale());
    return mk(e.movePointRight(sc).toBigIntegerExact(), BigInteger.TEN.pow(sc));
  }

  static Value fromDecimal(BigDecimal e) {
    int sc = Math.max(0, e.scale());
    return mk(e.movePointRight(sc).toBigIntegerExact(), BigInteger.TEN.pow(sc));
  }

  static Value bool(boolean b) { return b ? BoolValue.ValTrue : BoolValue.ValFalse; }

  // ---- constructors / conversions ------------------------------------------------
  public static Value RQ(Value n, Value d) {
    return mk(BigInteger.valueOf(((IntValue) n).val), BigInteger.valueOf(((IntValue) d).val));
  }

  /** "n/d", "n", decimal / scientific notation, "inf", "-inf", "nan". */
  public static Value RParse(Value s) {
    String t = ((StringValue) s).val.toString().trim();
    String lo = t.toLowerCase();
    if (lo.equals("nan")) return NAN;
    if (lo.equals("inf") || lo.equals("+inf") || lo.equals("infinity")) return mk(ONE, ZERO);
    if (lo.equals("-inf") || lo.equals("-infinity")) return mk(ONE.negate(), ZERO);
    int k = t.indexOf('/');
    if (k >= 0) return mk(new BigInteger(t.substring(0, k).trim()), new BigInteger(t.substring(k + 1).trim()));
    return fromDecimal(new BigDecimal(t));
  }

  public static Value RStr(Value a) {
    BigInteger[] x = get(a);
    return new StringValue(x[0].toString() + "/" + x[1].toString());
  }

  /** shortest decimal string of the nearest double ("Infinity", "NaN" possible) */
  public static Value RDbl(Value a) {
    return new StringValue(Double.toString(toDouble(get(a))));
  }

  // ---- field operations ----------------------------------------------------------
  public static Value RAdd(Value a, Value b) {
    BigInteger[] x = get(a), y = get(b);
    if (x[1].signum() == 0 || y[1].signum() == 0) return fromDouble(toDouble(x) + toDouble(y));
    return mk(x[0].multiply(y[1]).add(y[0].multiply(x[1])), x[1].multiply(y[1]));
  }

  public static Value RNeg(Value a) { BigInteger[] x = get(a); return mk(x[0].negate(), x[1]); }

  public static Value RSub(Value a, Value b) { return RAdd(a, RNeg(b)); }

  public static Value RMul(Value a, Value b) {
    BigInteger[] x = get(a), y = get(b);
    return mk(x[0].multiply(y[0]), x[1].multiply(y[1]));
  }

  public static Value RDiv(Value a, Value b) {
    BigInteger[] x = get(a), y = get(b);
    // reciprocal of y with the sign carried by the numerator
    BigInteger rn, rd;
    if (y[0].signum() == 0) { rn = y[1].signum() == 0 ? ZERO : ONE; rd = ZERO; }  // 1/0 = +inf, 1/NaN = NaN
    else { rn = y[1].multiply(BigInteger.valueOf(y[0].signum())); rd = y[0].abs(); }
    return mk(x[0].multiply(rn), x[1].multiply(rd));
  }

  public static Value RAbs(Value a) { BigInteger[] x = get(a); return mk(x[0].abs(), x[1]); }

  // ---- order ---------------------------------------------------------------------
  /** -2 when unordered (a NaN is involved) */
  static int cmp(BigInteger[] x, BigInteger[] y) {
    if (isNaN(x) || isNaN(y)) return -2;
    if (x[1].signum() == 0 || y[1].signum() == 0) return Double.compare(toDouble(x), toDouble(y));
    return Integer.signum(x[0].multiply(y[1]).compareTo(y[0].multiply(x[1])));
  }

  public static Value RLt(Value a, Value b) { int c = cmp(get(a), get(b)); return bool(c == -1); }
  public static Value RLe(Value a, Value b) { int c = cmp(get(a), get(b)); return bool(c == -1 || c == 0); }

  public static Value RMin(Value a, Value b) {
    int c = cmp(get(a), get(b));
    return c == -2 ? NAN : (c <= 0 ? a : b);
  }

  public static Value RMax(Value a, Value b) {
    int c = cmp(get(a), get(b));
    return c == -2 ? NAN : (c >= 0 ? a : b);
  }

  public static Value RIsNaN(Value a) { return bool(isNaN(get(a))); }
  public static Value RIsFinite(Value a) { return bool(get(a)[1].signum() != 0); }
  public static Value RSign(Value a) { return IntValue.gen(get(a)[0].signum()); }

  // ---- transcendental ------------------------------------------------------------
  public static Value RExp(Value a) { return fromDouble(StrictMath.exp(toDouble(get(a)))); }
  public static Value RLn(Value a) { return fromDouble(StrictMath.log(toDouble(get(a)))); }
  public static Value RPow(Value a, Value b) {
    return fromDouble(StrictMath.pow(toDouble(get(a)), toDouble(get(b))));
  }

  // ---- approximate equality:  |a-b| <= tol * max(1, |a|, |b|, scale) ----------------
  public static Value RClose(Value a, Value b, Value tol, Value scale) {
    BigInteger[] x = get(a), y = get(b), t = get(tol), sc = get(scale);
    if (isNaN(x) || isNaN(y)) return bool(false);
    if (x[1].signum() == 0 || y[1].signum() == 0)
      return bool(x[1].signum() == 0 && y[1].signum() == 0 && x[0].equals(y[0]));
    BigInteger dn = x[0].multiply(y[1]).subtract(y[0].multiply(x[1])).abs(), dd = x[1].multiply(y[1]);
    BigInteger[] s = {ONE, ONE};
    BigInteger[][] cands = {{x[0].abs(), x[1]}, {y[0].abs(), y[1]}, {sc[0].abs(), sc[1]}};
    for (BigInteger[] c : cands) {
      if (c[1].signum() == 0) continue;
      if (c[0].multiply(s[1]).compareTo(s[0].multiply(c[1])) > 0) s = c;
    }
    // dn/dd <= t0/t1 * s0/s1
    return bool(dn.multiply(t[1]).multiply(s[1]).compareTo(t[0].multiply(s[0]).multiply(dd)) <= 0);
  }

  // ---- deterministic pseudo-random generic points ----------------------------------
  /** lo + (hi-lo) * k/2^20 with k a 20-bit hash of `key` (any TLC value). */
  public static Value RUnif(Value key, Value lo, Value hi) {
    long fp = key.fingerPrint(FP64.New());
    fp ^= (fp >>> 33); fp *= 0xff51afd7ed558ccdL; fp ^= (fp >>> 33);
    long k = (fp >>> 11) & ((1L << 20) - 1);
    Value frac = mk(BigInteger.valueOf(k), BigInteger.valueOf(1L << 20));
    return RAdd(lo, RMul(RSub(hi, lo), frac));
  }

  /** an integer in 0..n-1 hashed from `key` */
  public static Value HashMod(Value key, Value n) {
    long fp = key.fingerPrint(FP64.New());
    fp ^= (fp >>> 33); fp *= 0xff51afd7ed558ccdL; fp ^= (fp >>> 33);
    int m = ((IntValue) n).val;
    return IntValue.gen((int) Long.remainderUnsigned(fp >>> 7, m));
  }
}

---------------------------- MODULE Real_selftest ----------------------------
(* Checks the Java overrides of Real against the meanings stated in Real.tla on
   small values (single-limb, so TLC's own integers can evaluate Num/Den) and
   against algebraic identities on big and transcendental values. *)
EXTENDS Integers, Sequences, TLC, Real
R == INSTANCE Real
S == -6..6
NumOf(a) == IF Len(a[1]) = 1 THEN 0 ELSE a[1][1] * a[1][2]
DenOf(a) == IF Len(a[2]) = 1 THEN 0 ELSE a[2][1] * a[2][2]
Pairs == {<<p, q>> \in S \X S : TRUE}
Field ==
  \A x \in Pairs, y \in Pairs :
    LET a == RQ(x[1], x[2])  b == RQ(y[1], y[2])
        fin == x[2] # 0 /\ y[2] # 0
    IN /\ fin => NumOf(a (+) b) * (x[2] * y[2]) = (x[1] * y[2] + y[1] * x[2]) * DenOf(a (+) b)
       /\ fin => NumOf(a (.) b) * (x[2] * y[2]) = (x[1] * y[1]) * DenOf(a (.) b)
       /\ fin => NumOf(a (-) b) * (x[2] * y[2]) = (x[1] * y[2] - y[1] * x[2]) * DenOf(a (-) b)
       /\ (fin /\ y[1] # 0) => ((a (/) b) (.) b) = a
       /\ fin => (RLt(a, b) <=> (x[1] * y[2] * (IF x[2] * y[2] > 0 THEN 1 ELSE -1) < y[1] * x[2] * (IF x[2] * y[2] > 0 THEN 1 ELSE -1)))
       /\ fin => (RMin(a, b) = IF RLe(a, b) THEN a ELSE b)
       /\ fin => (RMax(a, b) = IF RLe(b, a) THEN a ELSE b)
       /\ fin => DenOf(a) > 0
Extended ==
  /\ RQ(1, 0) = Inf /\ RQ(5, 0) = Inf /\ RQ(-3, 0) = RNeg(Inf) /\ RQ(0, 0) = NaN
  /\ (Inf (+) One) = Inf /\ RIsNaN(Inf (-) Inf) /\ RIsNaN(Inf (.) Zero) /\ (One (/) Inf) = Zero
  /\ (One (/) Zero) = Inf /\ (RNeg(One) (/) Zero) = RNeg(Inf) /\ RIsNaN(Zero (/) Zero)
  /\ (Inf (/) RQ(-2, 1)) = RNeg(Inf) /\ (RQ(5, 1) (/) RNeg(Inf)) = Zero
  /\ RMin(One, Inf) = One /\ RMax(One, Inf) = Inf /\ RIsNaN(RMin(NaN, One)) /\ ~RLt(NaN, One) /\ ~RLe(NaN, NaN)
  /\ RLt(RNeg(Inf), Zero) /\ RLt(Zero, Inf) /\ ~RIsFinite(Inf) /\ RIsFinite(One) /\ RSign(RQ(-7, 3)) = -1
Big ==
  LET a == RParse("123456789012345678901234567891/7")
      b == RParse("98765432109876543210.125")
  IN /\ ((a (+) b) (-) b) = a
     /\ ((a (.) b) (/) b) = a
     /\ RStr(a) = "123456789012345678901234567891/7"
     /\ RParse(RStr(a (.) b)) = (a (.) b)
     /\ RParse("0.1") = RQ(1, 10) /\ RParse("-2.5e-1") = RQ(-1, 4) /\ RParse("inf") = Inf /\ RIsNaN(RParse("nan"))
     /\ RParse("3602879701896397/36028797018963968") (.) RQ(10, 1) # One     \* the double 0.1 is not 1/10
Tol == RQ(1, 1000000000)
Transc ==
  /\ RExp(Zero) = One /\ RLn(One) = Zero /\ RPow(RQ(3, 1), RQ(2, 1)) = RQ(9, 1)
  /\ \A k \in 1..40 : LET x == RQ(k, 7) IN
       /\ RClose(RLn(RExp(x)), x, Tol, Zero)
       /\ RClose(RExp(x (+) One), RExp(x) (.) RExp(One), Tol, Zero)
       /\ RLt(RExp(x), RExp(x (+) RQ(1, 100)))
       /\ RClose(RPow(x, RQ(3, 2)) (.) RPow(x, RQ(1, 2)), x (.) x, Tol, Zero)
  /\ RIsNaN(RPow(RQ(-1, 2), RQ(3, 2))) /\ RPow(RQ(-1, 2), RQ(2, 1)) = RQ(1, 4) /\ RIsNaN(RLn(RQ(-1, 1)))
  /\ RLn(Zero) = RNeg(Inf) /\ RExp(RNeg(Inf)) = Zero
  /\ RClose(RQ(1000000001, 1000000000), One, Tol, Zero) /\ ~RClose(RQ(1000001, 1000000), One, Tol, Zero)
  /\ RClose(RQ(1000001, 1000000), One, Tol, RQ(10000, 1)) /\ ~RClose(NaN, NaN, Tol, Zero) /\ RClose(Inf, Inf, Tol, Zero)
Hashing ==
  /\ \A k \in 1..50 : LET u == RUnif(<<"seed", k>>, RQ(2, 1), RQ(5, 1)) IN RLe(RQ(2, 1), u) /\ RLt(u, RQ(5, 1))
  /\ RUnif(<<1, "a">>, Zero, One) = RUnif(<<1, "a">>, Zero, One)
  /\ RUnif(<<1, "a">>, Zero, One) # RUnif(<<2, "a">>, Zero, One)
  /\ \A k \in 1..50 : HashMod(<<k>>, 7) \in 0..6
  /\ RDbl(RQ(1, 4)) = "0.25"
ASSUME PrintT(<<"Real_selftest", Field, Extended, Big, Transc, Hashing>>)
ASSUME Field /\ Extended /\ Big /\ Transc /\ Hashing
VARIABLE x
Init == x = 0
Next == UNCHANGED x
=============================================================================

------------------------------ MODULE NetBuild ------------------------------
(***************************************************************************)
(* The construction layer of sym-metanet as a state machine: the graph     *)
(* built by add_node(s) / add_link(s) / add_origin / add_destination /     *)
(* add_path, the eleven memoised lookups with their invalidation table,    *)
(* the per-node link views, and is_valid.  One public call = one action;   *)
(* every call is a PURE function Apply(S, call) of the abstract state, so  *)
(* that the same definition drives exhaustive exploration (MC_Build),      *)
(* spec-to-code replay and trace validation of recorded histories.         *)
(*                                                                         *)
(* Abstract state S:                                                       *)
(*   nodes : Seq(id)            graph nodes in insertion order             *)
(*   edges : Seq(<<u, v>>)      edges in order of FIRST insertion (both    *)
(*                              adjacency orders of networkx derive from it)*)
(*   link  : [edge -> link id]  orig, dest : [node -> origin / dest id]    *)
(*   cache : [lookup -> [has, val]]  what functools.cached_property holds  *)
(* Ids are strings; anything may be passed where a node is expected (the   *)
(* library does not check), which is how C09's "no non-node becomes a      *)
(* node" is a real obligation.                                             *)
(***************************************************************************)
EXTENDS Integers, Sequences, FiniteSets, TLC

CONSTANTS NodeIds, LinkIds, OrigIds, RampIds, DestIds,   \* RampIds \subseteq OrigIds: metered on-ramps
          NameOf,                                        \* [id -> STRING], duplicates allowed
          InvalTable,            \* [op -> set of lookups] read from the implementation's decorators (<<>>: use the transcription below)
          InvalImplicitNodes,    \* TRUE: add_link(s)/add_origin/add_destination also drop nodes_by_name (repaired code)
          DestNameWrite,         \* TRUE: add_destination writes the new destination into the by-name lookup (pinned code)
          PathEndChecked         \* TRUE: add_path rejects a path whose last element is not a node (repaired code)

Lookups == {"nodes_by_name", "links_by_name", "nodes_by_link", "origins", "origins_by_name", "origins_by_node",
            "destinations", "destinations_by_name", "destinations_by_node"}
\* (`links` and `in_links` are memoised VIEWS on the live graph: they cannot go stale and are not tracked)

Range(s) == {s[i] : i \in DOMAIN s}
Ensure(s, e) == IF e \in Range(s) THEN s ELSE Append(s, e)
Put(f, k, v) == [x \in DOMAIN f \cup {k} |-> IF x = k THEN v ELSE f[x]]
Absent == [has |-> FALSE, val |-> <<>>]
Has(v) == [has |-> TRUE, val |-> v]
None == ""

EmptyState == [nodes |-> <<>>, edges |-> <<>>, link |-> <<>>, orig |-> <<>>, dest |-> <<>>,
               cache |-> [k \in Lookups |-> Absent]]

-----------------------------------------------------------------------------
(* ordered dictionaries (Python dict semantics): a sequence of <<key, value>>, a later
   write to an existing key replaces the value IN PLACE *)
RECURSIVE DictR(_, _)
DictR(pairs, acc) ==
  IF pairs = <<>> THEN acc
  ELSE LET k == Head(pairs)[1]  v == Head(pairs)[2]
           pos == {i \in DOMAIN acc : acc[i][1] = k}
       IN DictR(Tail(pairs), IF pos = {} THEN Append(acc, <<k, v>>)
                             ELSE [acc EXCEPT ![CHOOSE i \in pos : TRUE] = <<k, v>>])
DictOf(pairs) == DictR(pairs, <<>>)
Keys(d) == [i \in DOMAIN d |-> d[i][1]]
DictSet(d, k, v) == DictR(<<<<k, v>>>>, d)
SameDict(a, b) == Range(a) = Range(b)           \* equality as dictionaries (order-insensitive)

-----------------------------------------------------------------------------
(* the graph as networkx iterates it *)
Succ(S, u) == SelectSeq(S.edges, LAMBDA e : e[1] = u)      \* edges leaving u, adjacency order
Pred(S, v) == SelectSeq(S.edges, LAMBDA e : e[2] = v)      \* edges entering v, adjacency order
RECURSIVE Flat(_)
Flat(ss) == IF ss = <<>> THEN <<>> ELSE Head(ss) \o Flat(Tail(ss))
\* iteration of net.links: for every node in node order, its leaving edges
LinkIter(S) == Flat([i \in DOMAIN S.nodes |-> [j \in DOMAIN Succ(S, S.nodes[i]) |->
                  LET e == Succ(S, S.nodes[i])[j] IN <<e[1], e[2], S.link[e]>>]])
OutLinks(S, n) == [j \in DOMAIN Succ(S, n) |-> <<n, Succ(S, n)[j][2], S.link[Succ(S, n)[j]]>>]
InLinks(S, n)  == [j \in DOMAIN Pred(S, n) |-> <<Pred(S, n)[j][1], n, S.link[Pred(S, n)[j]]>>]
NodesWith(S, f) == SelectSeq(S.nodes, LAMBDA n : n \in DOMAIN f)

(* what each lookup is DOCUMENTED to be, evaluated on the current graph; the derived lookups
   are given the dictionary they are computed from *)
OriginsNow(S) == DictOf([i \in DOMAIN NodesWith(S, S.orig) |-> <<S.orig[NodesWith(S, S.orig)[i]], NodesWith(S, S.orig)[i]>>])
DestsNow(S)   == DictOf([i \in DOMAIN NodesWith(S, S.dest) |-> <<S.dest[NodesWith(S, S.dest)[i]], NodesWith(S, S.dest)[i]>>])
ByName(d) == DictOf([i \in DOMAIN d |-> <<NameOf[d[i][1]], d[i][1]>>])
Inverse(d) == DictOf([i \in DOMAIN d |-> <<d[i][2], d[i][1]>>])
Recompute(S, k) ==
  CASE k = "nodes_by_name" -> DictOf([i \in DOMAIN S.nodes |-> <<NameOf[S.nodes[i]], S.nodes[i]>>])
    [] k = "links_by_name" -> DictOf([i \in DOMAIN LinkIter(S) |-> <<NameOf[LinkIter(S)[i][3]], LinkIter(S)[i][3]>>])
    [] k = "nodes_by_link" -> DictOf([i \in DOMAIN LinkIter(S) |-> <<LinkIter(S)[i][3], <<LinkIter(S)[i][1], LinkIter(S)[i][2]>>>>])
    [] k = "origins" -> OriginsNow(S)
    [] k = "origins_by_name" -> ByName(OriginsNow(S))
    [] k = "origins_by_node" -> Inverse(OriginsNow(S))
    [] k = "destinations" -> DestsNow(S)
    [] k = "destinations_by_name" -> ByName(DestsNow(S))
    [] k = "destinations_by_node" -> Inverse(DestsNow(S))

-----------------------------------------------------------------------------
(* memoisation: reading fills the cache (through the lookups it is computed from) and
   returns whatever is stored -- stale or not *)
Base(k) == CASE k \in {"origins_by_name", "origins_by_node"} -> "origins"
             [] k \in {"destinations_by_name", "destinations_by_node"} -> "destinations"
             [] OTHER -> k
Fill(S, k) ==      \* the state after reading lookup k
  IF S.cache[k].has THEN S
  ELSE LET b == Base(k)
           S1 == IF b # k /\ ~S.cache[b].has THEN [S EXCEPT !.cache[b] = Has(Recompute(S, b))] ELSE S
           v == IF b = k THEN Recompute(S, k)
                ELSE IF k \in {"origins_by_name", "destinations_by_name"} THEN ByName(S1.cache[b].val)
                ELSE Inverse(S1.cache[b].val)
       IN [S1 EXCEPT !.cache[k] = Has(v)]
Stored(S, k) == Fill(S, k).cache[k].val

\* the invalidation table, transcribed from the @invalidate_cache decorators
Inval(op) ==
  IF op \in DOMAIN InvalTable THEN InvalTable[op] \cap Lookups ELSE
  CASE op \in {"add_node", "add_nodes"} -> {"nodes_by_name"}
    [] op \in {"add_link", "add_links"} -> {"links_by_name", "nodes_by_link"} \cup (IF InvalImplicitNodes THEN {"nodes_by_name"} ELSE {})
    [] op = "add_origin" -> {"origins", "origins_by_node", "origins_by_name"} \cup (IF InvalImplicitNodes THEN {"nodes_by_name"} ELSE {})
    [] op = "add_destination" -> {"destinations", "destinations_by_node", "destinations_by_name"} \cup (IF InvalImplicitNodes THEN {"nodes_by_name"} ELSE {})
Dropped(S, op) == [S EXCEPT !.cache = [k \in Lookups |-> IF k \in Inval(op) THEN Absent ELSE S.cache[k]]]

-----------------------------------------------------------------------------
(* mutators *)
AddNode0(S, n) == [S EXCEPT !.nodes = Ensure(S.nodes, n)]
AddLink0(S, u, l, v) == [S EXCEPT !.nodes = Ensure(Ensure(S.nodes, u), v), !.edges = Ensure(S.edges, <<u, v>>),
                                  !.link = Put(S.link, <<u, v>>, l)]
RECURSIVE FoldNodes(_, _)
FoldNodes(S, ns) == IF ns = <<>> THEN S ELSE FoldNodes(AddNode0(S, Head(ns)), Tail(ns))
RECURSIVE FoldLinks(_, _)
FoldLinks(S, ts) == IF ts = <<>> THEN S ELSE FoldLinks(AddLink0(S, Head(ts)[1], Head(ts)[2], Head(ts)[3]), Tail(ts))

AddNode(S, n) == AddNode0(Dropped(S, "add_node"), n)
AddNodes(S, ns) == FoldNodes(Dropped(S, "add_nodes"), ns)
AddLink(S, u, l, v) == AddLink0(Dropped(S, "add_link"), u, l, v)
AddLinks(S, ts) == FoldLinks(Dropped(S, "add_links"), ts)
(* MALFORMED single and bulk calls.  The library hands its arguments to networkx one by one, so a call that raises
   part-way has already changed the graph: add_nodes([n, None]) has added n, add_links([(u, l, v), (v, m)]) has added
   the first edge, add_link(u, l, None) has added u.  "None" stands for Python's None (networkx refuses it as a node),
   a tuple of length # 3 for a malformed link description (or an iterator that raises at that position).  The
   memoised lookups were dropped BEFORE the call started, so whatever reached the graph is seen by the next read. *)
NoneId == "None"
MalformedCall(c) ==
  \/ (c[1] = "add_nodes" /\ NoneId \in Range(c[2]))
  \/ (c[1] = "add_links" /\ \E i \in DOMAIN c[2] : Len(c[2][i]) # 3)
  \/ (c[1] = "add_link" /\ NoneId \in {c[2], c[4]})
  \/ (c[1] = "add_node" /\ c[2] = NoneId)
RECURSIVE BeforeNone(_)
BeforeNone(s) == IF s = <<>> \/ Head(s) = NoneId THEN <<>> ELSE <<Head(s)>> \o BeforeNone(Tail(s))
RECURSIVE BeforeRagged(_)
BeforeRagged(s) == IF s = <<>> \/ Len(Head(s)) # 3 THEN <<>> ELSE <<Head(s)>> \o BeforeRagged(Tail(s))
AddNodesPartial(S, ns) == AddNodes(S, BeforeNone(ns))
AddLinksPartial(S, ts) == AddLinks(S, BeforeRagged(ts))
AddLinkPartial(S, u, l, v) == LET D == Dropped(S, "add_link") IN IF u = NoneId THEN D ELSE [D EXCEPT !.nodes = Ensure(D.nodes, u)]
AddOrigin(S, o, n) == LET D == Dropped(S, "add_origin") IN [D EXCEPT !.nodes = Ensure(D.nodes, n), !.orig = Put(D.orig, n, o)]
AddDestination(S, d, n) ==
  LET D == Dropped(S, "add_destination")
      G == [D EXCEPT !.nodes = Ensure(D.nodes, n), !.dest = Put(D.dest, n, d)]
  IN IF ~DestNameWrite THEN G
     ELSE \* named deviation (pinned code): `self.destinations_by_name[destination.name] = destination`
          LET F == Fill(G, "destinations_by_name")
          IN [F EXCEPT !.cache["destinations_by_name"] = Has(DictSet(F.cache["destinations_by_name"].val, NameOf[d], d))]

IsNode(x) == x \in NodeIds
IsLink(x) == x \in LinkIds
\* add_path, step by step as the library performs it; returns [S, err]
RECURSIVE PathLoop(_, _, _, _)
PathLoop(S, p, i, cur) ==      \* cur: the pending <<node>> or <<node, link>>
  IF i > Len(p) THEN [S |-> S, err |-> None]
  ELSE IF Len(cur) = 1
       THEN IF ~IsLink(p[i]) THEN [S |-> S, err |-> "TypeError"] ELSE PathLoop(S, p, i + 1, Append(cur, p[i]))
       ELSE IF ~IsNode(p[i]) THEN [S |-> S, err |-> "TypeError"]
            ELSE PathLoop(AddLink(AddNode(S, p[i]), cur[1], cur[2], p[i]), p, i + 1, <<p[i]>>)
AddPath(S, p, o, d) ==
  IF p = <<>> THEN [S |-> S, err |-> "StopIteration"]
  ELSE IF ~IsNode(p[1]) THEN [S |-> S, err |-> "TypeError"]
  ELSE LET S1 == AddNode(S, p[1])
           S2 == IF o # None THEN AddOrigin(S1, o, p[1]) ELSE S1
           r == PathLoop(S2, p, 2, <<p[1]>>)
       IN IF r.err # None THEN r
          ELSE IF Len(p) = 1 THEN [S |-> r.S, err |-> "ValueError"]
          ELSE IF PathEndChecked /\ ~IsNode(p[Len(p)]) THEN [S |-> r.S, err |-> "TypeError"]
          ELSE [S |-> IF d # None THEN AddDestination(r.S, d, p[Len(p)]) ELSE r.S, err |-> None]

-----------------------------------------------------------------------------
(* validity: the nine documented conditions on the current graph *)
Count(S, x) == Cardinality({e \in Range(S.edges) : S.link[e] = x}) + Cardinality({n \in DOMAIN S.orig : S.orig[n] = x})
               + Cardinality({n \in DOMAIN S.dest : S.dest[n] = x})
NIn(S, n) == Len(Pred(S, n))
NOut(S, n) == Len(Succ(S, n))
Cond1(S) == \A x \in LinkIds \cup OrigIds \cup DestIds : Count(S, x) <= 1
Cond2(S) == \A n \in Range(S.nodes) : ~(n \in DOMAIN S.orig /\ n \in DOMAIN S.dest)
Cond3(S) == \A n \in Range(S.nodes) : ~(NIn(S, n) = 0 /\ NOut(S, n) = 0)
Cond4(S) == \A n \in Range(S.nodes) : NIn(S, n) = 0 => n \in DOMAIN S.orig
Cond5(S) == \A n \in Range(S.nodes) : NOut(S, n) = 0 => n \in DOMAIN S.dest
Cond6(S) == \A n \in DOMAIN S.orig : S.orig[n] \notin RampIds => NIn(S, n) = 0
Cond7(S) == \A n \in DOMAIN S.orig : NOut(S, n) <= 1
Cond8(S) == \A n \in DOMAIN S.dest : NIn(S, n) <= 1
Cond9(S) == \A n \in DOMAIN S.dest : NOut(S, n) = 0
Valid(S) == Cond1(S) /\ Cond2(S) /\ Cond3(S) /\ Cond4(S) /\ Cond5(S) /\ Cond6(S) /\ Cond7(S) /\ Cond8(S) /\ Cond9(S)
Violated(S) == {i \in 1..9 : ~(CASE i = 1 -> Cond1(S) [] i = 2 -> Cond2(S) [] i = 3 -> Cond3(S) [] i = 4 -> Cond4(S)
                                  [] i = 5 -> Cond5(S) [] i = 6 -> Cond6(S) [] i = 7 -> Cond7(S) [] i = 8 -> Cond8(S) [] i = 9 -> Cond9(S))}
\* is_valid(raises=False) reads the memoised origins / destinations dictionaries (condition 6-9 loops)
IsValidFill(S) == Fill(Fill(S, "origins"), "destinations")

-----------------------------------------------------------------------------
(* one public call = one pure function.  call = <<op, args...>>; result: [S, res] *)
Apply(S, c) ==
  LET op == c[1]
  IN CASE MalformedCall(c) ->
            [S |-> CASE op = "add_nodes" -> AddNodesPartial(S, c[2])
                     [] op = "add_links" -> AddLinksPartial(S, c[2])
                     [] op = "add_link" -> AddLinkPartial(S, c[2], c[3], c[4])
                     [] OTHER -> Dropped(S, "add_node"),
             res |-> <<"error", "ValueError">>]
       [] op = "add_node" -> [S |-> AddNode(S, c[2]), res |-> <<"ok">>]
       [] op = "add_nodes" -> [S |-> AddNodes(S, c[2]), res |-> <<"ok">>]
       [] op = "add_link" -> [S |-> AddLink(S, c[2], c[3], c[4]), res |-> <<"ok">>]
       [] op = "add_links" -> [S |-> AddLinks(S, c[2]), res |-> <<"ok">>]
       [] op = "add_origin" -> [S |-> AddOrigin(S, c[2], c[3]), res |-> <<"ok">>]
       [] op = "add_destination" -> [S |-> AddDestination(S, c[2], c[3]), res |-> <<"ok">>]
       [] op = "add_path" -> LET r == AddPath(S, c[2], c[3], c[4])
                             IN [S |-> r.S, res |-> IF r.err = None THEN <<"ok">> ELSE <<"error", r.err>>]
       [] op = "read" -> [S |-> Fill(S, c[2]), res |-> <<"value", Stored(S, c[2])>>]
       [] op = "out_links" -> [S |-> S, res |-> <<"value", OutLinks(S, c[2])>>]
       [] op = "in_links" -> [S |-> S, res |-> <<"value", InLinks(S, c[2])>>]
       [] op = "is_valid" -> [S |-> IsValidFill(S), res |-> <<"valid", Valid(S)>>]

-----------------------------------------------------------------------------
(* Properties *)
\* C08: nothing stored is stale
CacheCoherent(S) == \A k \in Lookups : S.cache[k].has => SameDict(S.cache[k].val, Recompute(S, k))
\* C08: every read returns the recomputation from the current graph
ReadFresh(S, c, res) == c[1] = "read" => SameDict(res[2], Recompute(S, c[2]))
\* C09: only node objects are nodes of the graph; edges carry link objects; attachments are origins/destinations
OnlyNodes(S) == Range(S.nodes) \subseteq NodeIds
WellTyped(S) == /\ \A e \in Range(S.edges) : S.link[e] \in LinkIds
                /\ \A n \in DOMAIN S.orig : S.orig[n] \in OrigIds
                /\ \A n \in DOMAIN S.dest : S.dest[n] \in DestIds
                /\ DOMAIN S.link = Range(S.edges)
                /\ \A e \in Range(S.edges) : e[1] \in Range(S.nodes) /\ e[2] \in Range(S.nodes)
                /\ DOMAIN S.orig \subseteq Range(S.nodes) /\ DOMAIN S.dest \subseteq Range(S.nodes)
\* C09: a malformed path is rejected
WellFormedPath(p) == /\ Len(p) >= 3 /\ Len(p) % 2 = 1
                     /\ \A i \in DOMAIN p : IF i % 2 = 1 THEN IsNode(p[i]) ELSE IsLink(p[i])
MalformedRejected(c, res) == ((c[1] = "add_path" /\ ~WellFormedPath(c[2])) \/ MalformedCall(c)) => res[1] = "error"
WellFormedAccepted(c, res) == (c[1] = "add_path" /\ WellFormedPath(c[2])) => res[1] = "ok"

\* C09: the graph DESCRIBED by a history of successful calls, declaratively: the set of nodes
\* mentioned, the last link given per ordered pair, the last origin / destination given per node
RECURSIVE Described(_)
Described(h) ==
  IF h = <<>> THEN [nodes |-> {}, link |-> <<>>, orig |-> <<>>, dest |-> <<>>]
  ELSE LET g == Described(SubSeq(h, 1, Len(h) - 1))  c == h[Len(h)]  op == c[1]
           Lnk(gg, t) == [gg EXCEPT !.nodes = @ \cup {t[1], t[3]}, !.link = Put(@, <<t[1], t[3]>>, t[2])]
           RECURSIVE LnkAll(_, _)
           LnkAll(gg, ts) == IF ts = <<>> THEN gg ELSE LnkAll(Lnk(gg, Head(ts)), Tail(ts))
           Triples(p) == [j \in 1..((Len(p) - 1) \div 2) |-> <<p[2 * j - 1], p[2 * j], p[2 * j + 1]>>]
       IN CASE op = "add_node" -> [g EXCEPT !.nodes = @ \cup {c[2]}]
            [] op = "add_nodes" -> [g EXCEPT !.nodes = @ \cup Range(c[2])]
            [] op = "add_link" -> Lnk(g, <<c[2], c[3], c[4]>>)
            [] op = "add_links" -> LnkAll(g, c[2])
            [] op = "add_origin" -> [g EXCEPT !.nodes = @ \cup {c[3]}, !.orig = Put(@, c[3], c[2])]
            [] op = "add_destination" -> [g EXCEPT !.nodes = @ \cup {c[3]}, !.dest = Put(@, c[3], c[2])]
            [] op = "add_path" /\ WellFormedPath(c[2]) ->
                 LET g1 == LnkAll([g EXCEPT !.nodes = @ \cup {c[2][1]}], Triples(c[2]))
                     g2 == IF c[3] # None THEN [g1 EXCEPT !.orig = Put(@, c[2][1], c[3])] ELSE g1
                 IN IF c[4] # None THEN [g2 EXCEPT !.dest = Put(@, c[2][Len(c[2])], c[4])] ELSE g2
            [] OTHER -> g
GraphOf(S) == [nodes |-> Range(S.nodes), link |-> S.link, orig |-> S.orig, dest |-> S.dest]
=============================================================================

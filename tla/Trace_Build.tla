----------------------------- MODULE Trace_Build -----------------------------
(***************************************************************************)
(* Trace validation for the construction layer (direction B): every line   *)
(* of the trace file is one history of public calls recorded from the real *)
(* library together with what each call returned and the graph projected   *)
(* after it.  TLC folds NetBuild!Apply over the calls and compares; the    *)
(* verdict names the first failing step and clause.                        *)
(* Line 1 of the file is a header [names |-> [id |-> name]].               *)
(***************************************************************************)
EXTENDS NetBuild, Json, IOUtils

File == ndJsonDeserialize(IOEnv.TRACE_FILE)
TraceNameOf == File[1].names
NoInvalTable == <<>>

AsSet(s) == {s[i] : i \in DOMAIN s}
\* the clauses that fail at step i given the specification's result a for the call and the observation o
StepFails(S, c, a, o) ==
  LET T == a.S
      kind == a.res[1]
      graphOk == /\ AsSet(o.nodes) = AsSet(T.nodes) /\ AsSet(o.links) = AsSet(LinkIter(T))
                 /\ AsSet(o.orig) = {<<n, T.orig[n]>> : n \in DOMAIN T.orig}
                 /\ AsSet(o.dest) = {<<n, T.dest[n]>> : n \in DOMAIN T.dest}
  IN (IF kind = "error" /\ o.res[1] # "error" THEN {"c09.malformed_accepted"} ELSE {})
     \cup (IF kind # "error" /\ o.res[1] = "error" THEN {"c09.call_raised"} ELSE {})
     \cup (IF ~(AsSet(o.nodes) \subseteq NodeIds) THEN {"c09.non_node"} ELSE {})
     \cup (IF kind # "error" /\ o.res[1] # "error" /\ ~graphOk THEN {"c09.graph"} ELSE {})
     \cup (IF kind = "value" /\ o.res[1] = "value" /\ c[1] = "read" /\ ~SameDict(o.res[2], a.res[2]) THEN {"c08.read"} ELSE {})
     \cup (IF kind = "value" /\ o.res[1] = "value" /\ c[1] # "read" /\ AsSet(o.res[2]) # AsSet(a.res[2]) THEN {"c08.view"} ELSE {})
     \cup (IF kind = "valid" /\ o.res[1] = "valid" /\ o.res[2][1] # a.res[2] THEN {"c06.verdict"} ELSE {})
     \cup (IF kind = "valid" /\ o.res[1] = "valid" /\ (o.res[2][1] <=> o.res[2][2] > 0) THEN {"c06.messages"} ELSE {})
     \cup (IF kind = "valid" /\ o.res[1] = "valid" /\ (o.raised = "InvalidNetworkError") # ~o.res[2][1] THEN {"c06.raises"} ELSE {})
     \cup (IF kind # "error" /\ o.res[1] # "error" /\ graphOk /\ (o.nodes # T.nodes \/ o.links # LinkIter(T)) THEN {"drift.order"} ELSE {})

\* after a call that failed (as it should), the partial effects are not part of any verdict: continue from the OBSERVED graph
FromObs(o) ==
  LET E == [i \in DOMAIN o.links |-> <<o.links[i][1], o.links[i][2]>>]
  IN [nodes |-> o.nodes, edges |-> E,
      link |-> [e \in {E[i] : i \in DOMAIN E} |-> o.links[CHOOSE i \in DOMAIN E : E[i] = e][3]],
      orig |-> [n \in {o.orig[i][1] : i \in DOMAIN o.orig} |-> o.orig[CHOOSE i \in DOMAIN o.orig : o.orig[i][1] = n][2]],
      dest |-> [n \in {o.dest[i][1] : i \in DOMAIN o.dest} |-> o.dest[CHOOSE i \in DOMAIN o.dest : o.dest[i][1] = n][2]],
      cache |-> [k \in Lookups |-> Absent]]
RECURSIVE Walk(_, _, _, _)
Walk(tr, i, S, acc) ==
  IF i > Len(tr.calls) THEN acc
  ELSE LET c == tr.calls[i]
           a == Apply(S, c)
           f == StepFails(S, c, a, tr.obs[i])
           acc2 == acc \cup {<<i, x>> : x \in f}
       IN \* after a failing call the library's partial effects are not part of the verdict: resynchronise on the observation
          IF \E x \in f : x \notin {"drift.order"} THEN acc2
          ELSE Walk(tr, i + 1, IF a.res[1] = "error" THEN FromObs(tr.obs[i]) ELSE a.S, acc2)

Verdict(tr) == [id |-> tr.id, fails |-> Walk(tr, 1, EmptyState, {}), steps |-> Len(tr.calls)]

VARIABLE l
Init == l = 2
Next == /\ l <= Len(File)
        /\ PrintT("VERDICT " \o ToJson(Verdict(File[l])))
        /\ l' = l + 1
=============================================================================

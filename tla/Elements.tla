------------------------------ MODULE Elements ------------------------------
(***************************************************************************)
(* Beyond the listed properties: creation of elements.                     *)
(*   - automatic names: an element created without a name is called        *)
(*     <ClassName><k>, k counting the unnamed instances of EXACTLY that     *)
(*     class so far (a subclass has its own counter); a given name is kept  *)
(*     and consumes no number;                                             *)
(*   - a speed-limited link rejects a limited-segment index outside        *)
(*     0..N-1 (ValueError) and keeps the indices sorted;                    *)
(*   - the NumPy engine rejects an unknown variable-initialisation mode.    *)
(* One call = one pure function Apply(S, call); MC explores all sequences   *)
(* up to a depth, the harness replays them (extracheck.py).  Deviations are *)
(* reported as MODEL-DRIFT: no listed property speaks about these.          *)
(***************************************************************************)
EXTENDS Integers, Sequences, FiniteSets, TLC, Json

CONSTANTS MaxDepth, EmitOn
Classes == {"Node", "Link", "LinkWithVsl", "Origin", "MainstreamOrigin", "MeteredOnRamp", "SimplifiedMeteredOnRamp",
            "Destination", "CongestedDestination", "Network"}
VARIABLES S, res, hist
vars == <<S, res, hist>>
Init0 == [count |-> [c \in Classes |-> 0], names |-> <<>>]

\* call: <<"new", class, given name or "">> | <<"vsl", N, limited segments (set of 0-based ints)>> | <<"np_engine", mode>>
Apply(T, c) ==
  CASE c[1] = "new" ->
         IF c[3] # "" THEN [S |-> [T EXCEPT !.names = Append(@, <<c[2], c[3], FALSE>>)], res |-> <<"name", c[3]>>]
         ELSE LET nm == c[2] \o ToString(T.count[c[2]])
              IN [S |-> [T EXCEPT !.count[c[2]] = @ + 1, !.names = Append(@, <<c[2], nm, TRUE>>)], res |-> <<"name", nm>>]
    [] c[1] = "vsl" ->
         IF \E i \in c[3] : i < 0 \/ i >= c[2] THEN [S |-> T, res |-> <<"error", "ValueError">>]
         ELSE [S |-> T, res |-> <<"vsl", [k \in 1..Cardinality(c[3]) |-> CHOOSE i \in c[3] : Cardinality({j \in c[3] : j < i}) = k - 1]>>]
    [] c[1] = "np_engine" ->
         [S |-> T, res |-> IF c[2] \in {"empty", "rand", "randn"} THEN <<"ok">> ELSE <<"error", "ValueError">>]

Calls == {<<"new", cl, nm>> : cl \in {"Node", "Link", "LinkWithVsl", "MeteredOnRamp", "SimplifiedMeteredOnRamp", "Network"}, nm \in {"", "given", "Link0"}}
         \cup {<<"vsl", n, s>> : n \in 1..3, s \in SUBSET (-1..3)}
         \cup {<<"np_engine", m>> : m \in {"empty", "rand", "randn", "zeros", ""}}
Init == S = Init0 /\ res = <<"init">> /\ hist = <<>>
Next == \E c \in Calls : LET a == Apply(S, c) IN S' = a.S /\ res' = a.res /\ hist' = Append(hist, c)
Bound == Len(hist) <= MaxDepth
View == S
\* automatically named elements never share a name
AutoNamesDistinct == \A i, j \in DOMAIN S.names : (S.names[i][3] /\ S.names[j][3] /\ S.names[i][2] = S.names[j][2]) => i = j
Emit == (EmitOn /\ Len(hist') <= MaxDepth) => PrintT("TRANS " \o ToJson([h |-> hist', res |-> res']))
=============================================================================

------------------------------ MODULE Trace_Life ------------------------------
(***************************************************************************)
(* Trace validation for the lifecycle layer (direction B): every line is a *)
(* history of lifecycle calls recorded from the real library with the      *)
(* outcome class of every call.  TLC folds Lifecycle!Apply over the calls  *)
(* and compares the outcome of every compilation (C19) and the kinds of    *)
(* variables (C13) with the specification; the verdict names the first     *)
(* failing step and clause.                                                *)
(***************************************************************************)
EXTENDS Lifecycle, Json, IOUtils

File == ndJsonDeserialize(IOEnv.TRACE_FILE)

StepFails(S, c, a, o) ==
  LET T == a.S
  IN (IF c[1] = "compile" /\ a.res[1] = "error" /\ o.kind # "error" THEN {"c19.unready_compiled"} ELSE {})
     \cup (IF c[1] = "compile" /\ a.res[1] = "error" /\ o.kind = "error" /\ ~o.runtime_error THEN {"c19.wrong_error_class"} ELSE {})
     \cup (IF c[1] = "compile" /\ a.res[1] = "function" /\ o.kind = "error" THEN {"c19.ready_not_compiled"} ELSE {})
     \cup (IF c[1] = "compile" /\ a.res[1] = "function" /\ o.kind = "function" /\ o.free # 0 THEN {"c19.free_symbols"} ELSE {})
     \cup (IF c[1] \in {"net_step", "init", "init_all", "add_later"} /\ o.kind = "error" THEN {"crash"} ELSE {})
     \cup (IF c[1] = "step" /\ a.res[1] = "ok" /\ o.kind = "error" THEN {"crash"} ELSE {})
     \cup (IF o.kind # "error" /\ \E e \in InNet(T) \cap Declaring : o.vars[e] # T.vars[e] THEN {"c13.kinds"} ELSE {})

\* (TLC keeps [x \in S |-> e] as an unevaluated lambda; comparing a value with itself converts and caches every function in it)
Norm(S) == IF S = S THEN S ELSE S
RECURSIVE Walk(_, _, _, _)
Walk(tr, i, S, acc) ==
  IF i > Len(tr.calls) THEN [fails |-> acc, uniform |-> Uniform(S) /\ Ready(S), last |-> IF S.nxt["L2"].has THEN <<S.nxt["L2"].par, S.nxt["L2"].opts>> ELSE <<"", "">>]
  ELSE LET c == tr.calls[i]
       IN IF ~CallEnabled(S, c) THEN [fails |-> acc \cup {<<i, "model.call_not_modelled">>}, uniform |-> FALSE, last |-> <<"", "">>]
          ELSE LET a == Apply(S, c)
                   f == StepFails(S, c, a, tr.obs[i])
               IN IF f # {} THEN [fails |-> acc \cup {<<i, x>> : x \in f}, uniform |-> FALSE, last |-> <<"", "">>]
                  ELSE Walk(tr, i + 1, Norm(a.S), acc)

Verdict(tr) == LET w == Walk(tr, 1, [Init0 EXCEPT !.cur = [kind |-> tr.kind, id |-> "trace_engine"]], {})
               IN [id |-> tr.id, fails |-> w.fails, uniform |-> w.uniform, last |-> w.last]

VARIABLE l
Init == l = 1
Next == /\ l <= Len(File)
        /\ PrintT("VERDICT " \o ToJson(Verdict(File[l])))
        /\ l' = l + 1
=============================================================================

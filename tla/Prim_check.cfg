CONSTANTS Mode = "check"
 Level = 1
INIT Init
NEXT Next
CHECK_DEADLOCK FALSE

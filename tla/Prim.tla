--------------------------------- MODULE Prim ---------------------------------
(***************************************************************************)
(* The engine primitives one by one (C15, C17): TLC enumerates product     *)
(* grids of arguments for every primitive of the engine interface          *)
(* (Mode = "gen"), the harness calls the NumPy and the CasADi              *)
(* implementation on each grid point (scalars, length-1 and length-N       *)
(* vectors), and TLC validates the recorded results against the scalar     *)
(* laws of Laws.tla (Mode = "check").                                      *)
(***************************************************************************)
EXTENDS Laws, TLC, Json, IOUtils, SeqUtil

CONSTANTS Mode, Level      \* Level 1: quick grids, 2: thorough grids

SetToSeq(S) == ToSeq(S)
P(s) == RParse(s)
Big == Level >= 2

-----------------------------------------------------------------------------
(* value sets (strings; boundaries, ties and both sides of every min / max / if) *)
Rho    == IF Big THEN {"0", "1e-9", "12.5", "30", "33.5", "33.51", "60.25", "120", "180"} ELSE {"0", "12.5", "33.5", "33.51", "60.25", "180"}
V      == IF Big THEN {"0", "1e-9", "3", "20.5", "61.1", "62", "102", "130"} ELSE {"0", "3", "20.5", "62", "102"}
W      == IF Big THEN {"0", "0.5", "10", "100"} ELSE {"0", "10", "100"}
Dem    == IF Big THEN {"0", "150", "1500", "3000", "12000"} ELSE {"0", "1500", "12000"}
RateS  == IF Big THEN {"0", "0.25", "0.6", "1"} ELSE {"0", "0.6", "1"}
Cap    == {"1500", "2500"}
RhoMax == {"180"}
RhoCr  == IF Big THEN {"30", "33.5"} ELSE {"33.5"}
Ts     == IF Big THEN {"1/360", "1/720"} ELSE {"1/360"}
Qdes   == IF Big THEN {"0", "400", "1800", "5000", "inf"} ELSE {"0", "1800", "inf"}
VCtl   == IF Big THEN {"0", "4", "50", "61.1", "90", "inf"} ELSE {"0", "4", "50", "90", "inf"}
As     == IF Big THEN {"1.867", "2", "1.5", "0.8", "0.3"} ELSE {"1.867", "2", "0.8", "0.3"}   \* 0.3: exp(-1/a) below the ratio guard
VFree  == {"102"}
Lanes  == IF Big THEN {"1", "2", "3", "2.5"} ELSE {"2", "3", "2.5"}

Grid(prim) ==
  CASE prim = "get_flow" -> [rho : Rho, v : V, lanes : Lanes]
    [] prim = "step_density" -> [rho : Rho, q : {"0", "1800", "4200"}, q_up : {"0", "2100", "4200"}, lanes : Lanes, L : {"1", "0.75"}, T : Ts]
    [] prim = "Veq" -> [rho : Rho, v_free : VFree, rho_crit : RhoCr, a : As]
    [] prim = "step_queue" -> [w : W, d : Dem, q : {"0", "1500", "3600"}, T : Ts]
    [] prim = "get_mainstream_flow" -> [d : Dem, w : W, v_ctrl : VCtl, v_first : V, rho_crit : RhoCr, a : As, v_free : VFree, lanes : {"2"}, T : Ts]
    [] prim = "get_ramp_flow" -> [d : Dem, w : W, C : Cap, r : RateS, rho_max : RhoMax, rho_first : Rho, rho_crit : RhoCr, T : Ts, type : {"in", "out"}]
    [] prim = "get_simplifiedramp_flow" -> [qdes : Qdes, d : Dem, w : W, C : Cap, rho_max : RhoMax, rho_first : Rho, rho_crit : RhoCr, T : Ts, type : {"limited", "unlimited"}]
    [] prim = "get_congestion_free_downstream_density" -> [rho_last : Rho, rho_crit : RhoCr \cup {"30"}]
    [] prim = "get_congested_downstream_density" -> [rho_last : Rho, rho_destination : {"0", "20", "33.5", "90"}, rho_crit : RhoCr \cup {"30"}]
    [] prim = "step_speed" -> [v : V, v_up : {"0", "50", "110"}, rho : Rho \ {"1e-9"}, rho_down : {"0", "33.5", "150"}, Veq : {"0", "60", "102"},
                               lanes : {"2"}, L : {"1", "0.75"}, tau : {"1/200"}, eta : {"60"}, kappa : {"40"}, T : Ts,
                               q_ramp : {"none", "0", "900"}, delta : {"0.0122"}, lanes_drop : {"none", "1", "-1"}, phi : {"2"}, rho_crit : {"33.5"}]
    [] prim = "controlled_Veq" -> [rho : Rho, v_ctrl : VCtl, alpha : {"0", "0.1"}, v_free : VFree, rho_crit : RhoCr, a : {"1.867"},
                                   pat : {"all", "first", "last", "outer", "tail"}]
    [] prim = "max" -> [x : {"-5", "0", "1e-9", "7.5", "inf"}]
VectorPrims == {"get_flow", "step_density", "Veq", "step_speed", "controlled_Veq", "max"}
ScalarPrims == {"step_queue", "get_mainstream_flow", "get_ramp_flow", "get_simplifiedramp_flow",
                "get_congestion_free_downstream_density", "get_congested_downstream_density"}
NodePrims == {"get_upstream_flow", "get_upstream_speed", "get_downstream_density", "vcat"}
VecArgs(prim) == CASE prim = "get_flow" -> {"rho", "v"} [] prim = "step_density" -> {"rho", "q", "q_up"} [] prim = "Veq" -> {"rho"}
                   [] prim = "step_speed" -> {"v", "v_up", "rho", "rho_down", "Veq"} [] prim = "controlled_Veq" -> {"rho", "v_ctrl"}
                   [] prim = "max" -> {"x"} [] OTHER -> {}

\* which segments of an n-segment link carry a speed limit under a pattern name (the k-th control value of the
\* stacked vector belongs to segment k; the harness passes the listed segments and their values only)
PatSet(pat, n) == CASE pat = "all" -> 1..n [] pat = "first" -> {1} [] pat = "last" -> {n} [] pat = "outer" -> {1, n}
                    [] OTHER -> {i \in 1..n : i >= n - 1}

\* seeded random points inside the admissible box of every argument (thin regions are only met by chance: the more the better)
Box(arg) == CASE arg \in {"rho", "rho_first", "rho_last", "rho_down", "rho_destination"} -> <<"0", "180">>
              [] arg \in {"v", "v_up", "v_first", "v_ctrl", "Veq"} -> <<"0", "130">> [] arg = "w" -> <<"0", "100">>
              [] arg = "d" -> <<"0", "4000">> [] arg \in {"q", "q_up", "qdes", "q_ramp"} -> <<"0", "4500">> [] arg = "r" -> <<"0", "1">>
              [] arg = "C" -> <<"500", "3000">> [] arg = "rho_max" -> <<"180", "180">> [] arg = "rho_crit" -> <<"25", "40">>
              [] arg = "a" -> <<"0.25", "2.5">> [] arg = "v_free" -> <<"90", "120">> [] arg \in {"lanes", "lanes_drop"} -> <<"1", "4">>
              [] arg = "L" -> <<"0.5", "1.5">> [] arg = "tau" -> <<"0.002", "0.01">> [] arg = "eta" -> <<"30", "70">>
              [] arg = "kappa" -> <<"10", "45">> [] arg = "T" -> <<"1/360", "1/360">> [] arg = "delta" -> <<"0.005", "0.03">>
              [] arg = "phi" -> <<"0.5", "3">> [] arg = "alpha" -> <<"0", "0.2">> [] arg = "x" -> <<"-50", "50">>
              [] OTHER -> <<"0", "1">>
Rand(prim, pt, k) ==     \* the k-th random variation of grid point pt: categorical fields kept, numbers redrawn
  [a \in DOMAIN pt |-> IF a \in {"type", "pat"} \/ pt[a] \in {"none", "inf"} THEN pt[a]
                        ELSE RStr(RUnif(<<prim, k, a>>, RParse(Box(a)[1]), RParse(Box(a)[2])))]
NRand == IF Big THEN 2000 ELSE 150

\* node rules: sequences of 1..3 values
NodeCases ==
  LET Q == <<"0", "1800", "3600", "900.5">>  Vs == <<"80", "0", "61.5", "102">>  B == <<"1", "3", "0.5", "2">>  R == <<"0", "20", "33.5", "90.25">>
      Sub(s, a, n) == [i \in 1..n |-> s[((a + i - 2) % Len(s)) + 1]]
  IN {[prim |-> "get_upstream_flow", args |-> [q_lasts |-> Sub(Q, a, n), beta |-> B[((a + k - 1) % 4) + 1], betas |-> Sub(B, a + k, m), q_orig |-> qo]] :
        a \in 1..4, n \in 1..3, m \in 1..3, k \in 0..1, qo \in {"none", "0", "700"}}
     \cup {[prim |-> "get_upstream_speed", args |-> [q_lasts |-> Sub(Q, a, n), v_lasts |-> Sub(Vs, b, n)]] : a \in 1..4, b \in 1..4, n \in 1..3}
     \cup {[prim |-> "get_downstream_density", args |-> [rho_firsts |-> Sub(R, a, n)]] : a \in 1..4, n \in 1..3}
     \cup {[prim |-> "vcat", args |-> [a |-> Sub(Q, a, n), b |-> Sub(R, b, m)]] : a \in 1..2, b \in 1..2, n \in 1..2, m \in 1..3}

-----------------------------------------------------------------------------
(* generation *)
Prims == VectorPrims \cup ScalarPrims
Points(prim) == SetToSeq(Grid(prim))
\* vector case: n consecutive grid points stacked on the vector arguments, the scalar arguments of the first point
Stack(prim, pts, i, n) ==
  [a \in DOMAIN pts[i] |-> IF a \in VecArgs(prim) THEN [k \in 1..n |-> pts[((i + k - 2) % Len(pts)) + 1][a]] ELSE pts[i][a]]
VARIABLE l
\* (with a parameter: TLC evaluates zero-arity constant-level definitions eagerly at start-up, in every mode)
Gen(dummy) ==
  /\ \A prim \in ScalarPrims : LET pts == Points(prim) IN
       \A i \in DOMAIN pts : \A shape \in {"scalar", "vec1"} :
         PrintT("PCASE " \o ToJson([id |-> prim \o "-" \o shape \o "-" \o ToString(i), prim |-> prim, shape |-> shape, args |-> pts[i]]))
  /\ \A prim \in ScalarPrims : LET pts == Points(prim) IN
       \A k \in 1..NRand :
         PrintT("PCASE " \o ToJson([id |-> prim \o "-rand-" \o ToString(k), prim |-> prim, shape |-> "vec1",
                                    args |-> Rand(prim, pts[((k * 7919) % Len(pts)) + 1], k)]))
  /\ \A prim \in VectorPrims \ {"controlled_Veq"} : LET pts == Points(prim) IN
       \A k \in 1..NRand :
         PrintT("PCASE " \o ToJson([id |-> prim \o "-rand4-" \o ToString(k), prim |-> prim, shape |-> "vec4",
                                    args |-> LET base == pts[((k * 7919) % Len(pts)) + 1] IN
                                      [a \in DOMAIN base |-> IF a \in VecArgs(prim) THEN [j \in 1..4 |-> Rand(prim, base, 4 * k + j)[a]]
                                                             ELSE Rand(prim, base, k)[a]]]))
  /\ \A prim \in VectorPrims : LET pts == Points(prim) IN
       \A i \in DOMAIN pts : \A n \in {1, 3} :
         PrintT("PCASE " \o ToJson([id |-> prim \o "-vec" \o ToString(n) \o "-" \o ToString(i), prim |-> prim,
                                    shape |-> "vec" \o ToString(n), args |-> Stack(prim, pts, i, n)]))
  /\ LET ncs == SetToSeq(NodeCases) IN \A i \in DOMAIN ncs :
       PrintT("PCASE " \o ToJson([id |-> ncs[i].prim \o "-node-" \o ToString(i), prim |-> ncs[i].prim, shape |-> "node", args |-> ncs[i].args]))

-----------------------------------------------------------------------------
(* validation *)
Trace == IF Mode = "check" THEN ndJsonDeserialize(IOEnv.TRACE_FILE) ELSE <<>>
Tol  == RParse("1e-9")
TolX == RParse("1e-10")
Mx(a, b) == IF RIsNaN(a) THEN b ELSE IF RIsNaN(b) THEN a ELSE RMax(a, b)
El(a, k) == IF DOMAIN a = {} THEN a ELSE P(a[k])       \* k-th element of a vector argument (strings)
Sc(a) == P(a)
IsSeq(a) == a = <<>> \/ DOMAIN a = 1..Len(a)
Opt(s) == s # "none"

\* expected value (and rounding scale) of element k of the result
Expect(c, k, n) ==
  LET a == c.args  prim == c.prim
      X(name) == IF name \in VecArgs(prim) /\ c.shape \notin {"scalar"} /\ prim \in VectorPrims THEN P(a[name][k]) ELSE P(a[name])
  IN CASE prim = "get_flow" -> [v |-> PFlow(X("rho"), X("v"), X("lanes")), s |-> Zero]
       [] prim = "step_density" ->
            LET cc == (X("T") (/) X("lanes")) (/) X("L")
            IN [v |-> PStepDensity(X("rho"), X("q"), X("q_up"), X("lanes"), X("L"), X("T")),
                s |-> Mx(RAbs(X("rho")), Mx(RAbs(cc (.) X("q")), RAbs(cc (.) X("q_up"))))]
       [] prim = "Veq" -> [v |-> PVeq(X("rho"), X("v_free"), X("rho_crit"), X("a")), s |-> Zero]
       [] prim = "controlled_Veq" ->
            [v |-> IF k \in PatSet(a.pat, n) THEN PCtrlVeq(X("rho"), X("v_ctrl"), X("alpha"), X("v_free"), X("rho_crit"), X("a"))
                   ELSE PVeq(X("rho"), X("v_free"), X("rho_crit"), X("a")), s |-> Zero]
       [] prim = "max" -> [v |-> RMax(Zero, X("x")), s |-> Zero]
       [] prim = "step_speed" ->
            LET mrg == IF Opt(a.q_ramp) /\ k = 1 THEN PMerge(X("v"), X("rho"), P(a.q_ramp), X("lanes"), X("L"), X("delta"), X("kappa"), X("T")) ELSE Zero
                drp == IF Opt(a.lanes_drop) /\ k = n THEN PDrop(X("v"), X("rho"), P(a.lanes_drop), X("lanes"), X("L"), X("phi"), X("rho_crit"), X("T")) ELSE Zero
            IN [v |-> PStepSpeed(X("v"), X("v_up"), X("rho"), X("rho_down"), X("Veq"), X("lanes"), X("L"), X("tau"), X("eta"), X("kappa"), X("T"), mrg, drp),
                s |-> Mx(Mx(RAbs(X("v")), RAbs(PRelax(X("v"), X("Veq"), X("tau"), X("T")))),
                         Mx(Mx(RAbs(PConvect(X("v"), X("v_up"), X("L"), X("T"))), RAbs(PAnticip(X("rho"), X("rho_down"), X("L"), X("tau"), X("eta"), X("kappa"), X("T")))),
                            Mx(RAbs(mrg), RAbs(drp))))]
       [] prim = "step_queue" -> [v |-> PStepQueue(X("w"), X("d"), X("q"), X("T")), s |-> Mx(RAbs(X("w")), Mx(RAbs(X("T") (.) X("d")), RAbs(X("T") (.) X("q"))))]
       [] prim = "get_mainstream_flow" ->
            [v |-> PMainFlow(X("d"), X("w"), X("v_ctrl"), X("v_first"), X("rho_crit"), X("a"), X("v_free"), X("lanes"), X("T")), s |-> Zero]
       [] prim = "get_ramp_flow" ->
            [v |-> PRampFlow(a.type, X("d"), X("w"), X("C"), X("r"), X("rho_max"), X("rho_first"), X("rho_crit"), X("T")), s |-> Zero]
       [] prim = "get_simplifiedramp_flow" ->
            [v |-> PSimpFlow(a.type, X("qdes"), X("d"), X("w"), X("C"), X("rho_max"), X("rho_first"), X("rho_crit"), X("T")), s |-> Zero]
       [] prim = "get_congestion_free_downstream_density" -> [v |-> PDestFree(X("rho_last"), X("rho_crit")), s |-> Zero]
       [] prim = "get_congested_downstream_density" -> [v |-> PDestCongested(X("rho_last"), X("rho_destination"), X("rho_crit")), s |-> Zero]
       [] prim = "get_upstream_flow" ->
            [v |-> PUpFlow([i \in DOMAIN a.q_lasts |-> P(a.q_lasts[i])], P(a.beta), [i \in DOMAIN a.betas |-> P(a.betas[i])],
                           IF Opt(a.q_orig) THEN P(a.q_orig) ELSE Zero), s |-> Zero]
       [] prim = "get_upstream_speed" -> [v |-> PUpSpeed([i \in DOMAIN a.q_lasts |-> P(a.q_lasts[i])], [i \in DOMAIN a.v_lasts |-> P(a.v_lasts[i])]), s |-> Zero]
       [] prim = "get_downstream_density" -> [v |-> PDownDensity([i \in DOMAIN a.rho_firsts |-> P(a.rho_firsts[i])]), s |-> Zero]
       [] prim = "vcat" -> [v |-> P((a.a \o a.b)[k]), s |-> Zero]

OutLen(c) == CASE c.prim = "vcat" -> Len(c.args.a) + Len(c.args.b)
               [] c.prim \in VectorPrims -> (IF c.shape = "vec3" THEN 3 ELSE IF c.shape = "vec4" THEN 4 ELSE 1)
               [] OTHER -> 1

\* C17 for the origin-flow primitives: admissible arguments (all grids are admissible: non-negative, r <= 1, rho_first <= rho_max)
BoundsOk(c, q) ==
  LET a == c.args
  IN CASE c.prim = "get_mainstream_flow" ->
            /\ RLe(Zero, q) /\ RLe(q, PDemand(P(a.d), P(a.w), P(a.T)) (+) (Tol (.) Mx(One, PDemand(P(a.d), P(a.w), P(a.T)))))
            /\ RLe(q, PQCap(P(a.lanes), P(a.v_free), P(a.rho_crit), P(a.a)) (.) (One (+) Tol))
       [] c.prim = "get_ramp_flow" \/ (c.prim = "get_simplifiedramp_flow" /\ a.type = "limited") ->
            /\ RLe(Zero, q) /\ RLe(q, PDemand(P(a.d), P(a.w), P(a.T))) /\ RLe(q, P(a.C))
            /\ (P(a.rho_first) = P(a.rho_max)) => q = Zero
            /\ RLe(RNeg(Tol (.) Mx(One, P(a.w))), PStepQueue(P(a.w), P(a.d), q, P(a.T)))
       [] OTHER -> TRUE

Verdict(c) ==
  LET n == OutLen(c)
      Eng(name, o) ==
        IF ~o.ok THEN {<<name \o ".ok", o.err>>}
        ELSE IF Len(o.out) # n THEN {<<name \o ".shape", Len(o.out)>>}
        ELSE {<<name \o ".val", k>> : k \in {k \in 1..n : LET e == Expect(c, k, n) IN ~RIsNaN(e.v) /\ ~RClose(e.v, P(o.out[k]), Tol, e.s)}}
             \cup {<<name \o ".finite", k>> : k \in {k \in 1..n : RIsFinite(Expect(c, k, n).v) /\ ~RIsFinite(P(o.out[k]))}}
             \cup {<<name \o ".bounds", k>> : k \in {k \in 1..n : ~BoundsOk(c, P(o.out[k]))}}
      both == IF c.obs.np.ok /\ c.obs.cs.ok /\ Len(c.obs.np.out) = n /\ Len(c.obs.cs.out) = n
              THEN {<<"np_vs_cs", k>> : k \in {k \in 1..n : LET e == Expect(c, k, n) IN
                      ~RIsNaN(e.v) /\ ~RClose(P(c.obs.np.out[k]), P(c.obs.cs.out[k]), TolX, e.s)}}
              ELSE {}
      model == IF c.prim \in {"get_mainstream_flow", "get_ramp_flow", "get_simplifiedramp_flow"} /\ ~BoundsOk(c, Expect(c, 1, 1).v)
               THEN {<<"model.bounds", 1>>} ELSE {}
  IN [id |-> c.id, prim |-> c.prim, fails |-> Eng("np", c.obs.np) \cup Eng("cs", c.obs.cs) \cup both \cup model]

Init == l = 1
Next == IF Mode = "gen" THEN l = 1 /\ Gen(l) /\ l' = 2
        ELSE /\ l <= Len(Trace)
             /\ PrintT("VERDICT " \o ToJson(Verdict(Trace[l])))
             /\ l' = l + 1
=============================================================================

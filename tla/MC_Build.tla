------------------------------ MODULE MC_Build ------------------------------
(***************************************************************************)
(* Bounded model-checking instances of NetBuild: every history of public   *)
(* calls up to MaxDepth over a small universe.  Invariants state C06, C08, *)
(* C09 on the model; the ACTION_CONSTRAINT Emit prints every generated     *)
(* transition (history, result, expected post-state) as one JSON line so   *)
(* that the harness replays each one into the real library.                *)
(***************************************************************************)
EXTENDS NetBuild, Json, IOUtils

CONSTANTS MaxDepth, Profile, MaxPath, EmitOn

MCNameOf == [x \in NodeIds \cup LinkIds \cup OrigIds \cup DestIds |->
               CASE x = "n1" -> "A" [] x = "n2" -> "B" [] x = "n3" -> "A" [] x = "n4" -> "C"
                 [] x \in LinkIds -> (IF x = "l3" THEN "M" ELSE "L")
                 [] x \in OrigIds -> (IF x = "o1" THEN "O" ELSE "R")
                 [] x \in DestIds -> "D"]

\* the invalidation table extracted from the implementation's decorators by the harness, passed as constants of the
\* configuration (UseImplTable = FALSE: the transcription in NetBuild!Inval)
CONSTANTS UseImplTable, InvAddNode, InvAddNodes, InvAddLink, InvAddLinks, InvAddOrigin, InvAddDestination
MCInvalTable == IF UseImplTable
                THEN [add_node |-> InvAddNode, add_nodes |-> InvAddNodes, add_link |-> InvAddLink, add_links |-> InvAddLinks,
                      add_origin |-> InvAddOrigin, add_destination |-> InvAddDestination]
                ELSE <<>>

VARIABLES S, res, hist, depth
vars == <<S, res, hist, depth>>
View == S
ViewH == <<S, hist>>      \* history-complete exploration (profile "dense"): no two histories are merged

Objs == NodeIds \cup LinkIds
SingleMut == {<<"add_node", n>> : n \in NodeIds}
             \cup {<<"add_link", u, l, v>> : u \in NodeIds, l \in LinkIds, v \in NodeIds}
             \cup {<<"add_origin", o, n>> : o \in OrigIds, n \in NodeIds}
             \cup {<<"add_destination", d, n>> : d \in DestIds, n \in NodeIds}
ReadCalls == {<<"read", k>> : k \in Lookups} \cup {<<"is_valid">>}
ViewCalls == {<<"out_links", n>> : n \in NodeIds} \cup {<<"in_links", n>> : n \in NodeIds}
\* (the calls that mention a third node only exist in universes that have one)
Has3 == "n3" \in NodeIds
BulkCalls == {<<"add_nodes", <<"n1", "n2">>>>,
              <<"add_links", <<<<"n1", "l1", "n2">>, <<"n1", "l2", "n2">>>>>>,
              <<"add_links", <<<<"n2", "l1", "n1">>, <<"n2", "l1", "n2">>>>>>}
             \cup (IF Has3 THEN {<<"add_nodes", <<"n3", "n1">>>>, <<"add_links", <<<<"n1", "l1", "n2">>, <<"n2", "l2", "n3">>>>>>} ELSE {})
\* calls that raise part-way, after the graph has already changed (see NetBuild!MalformedCall)
FailCalls == {<<"add_links", <<<<"n1", "l2", "n2">>, <<"n2", "l1">>>>>>, <<"add_nodes", <<"n2", "None">>>>, <<"add_link", "n2", "l2", "None">>}
             \cup (IF Has3 THEN {<<"add_links", <<<<"n1", "l2", "n3">>, <<"n2", "n3">>>>>>, <<"add_links", <<<<"n2", "l2", "n3">>, <<"n3", "l1">>>>>>,
                                 <<"add_nodes", <<"n3", "None", "n1">>>>, <<"add_link", "n3", "l1", "None">>} ELSE {})
FewPaths == {<<"add_path", <<"n1", "l1", "n2">>, "o1", "d1">>,
             <<"add_path", <<"n1", "l1", "n2", "l2", IF Has3 THEN "n3" ELSE "n1">>, "", "">>,
             <<"add_path", <<"n2", "l2", "n1">>, "r1", "">>,
             <<"add_path", <<"n1", "l1">>, "", "d1">>,
             <<"add_path", <<"n1", "l1">>, "o1", "">>,
             <<"add_path", <<"n1">>, "o1", "">>,
             <<"add_path", <<"n1", "n2">>, "", "">>}
\* whole stretches with their boundary elements in one call: near-valid networks within a few calls
ValidPaths == {<<"add_path", p, o, d>> : p \in {<<"n1", "l1", "n2">>, <<"n2", "l2", "n3">>, <<"n1", "l1", "n2", "l2", "n3">>},
                                         o \in {"", "o1", "r1"}, d \in {"", "d1"}}
RECURSIVE SeqsUpTo(_, _)
SeqsUpTo(A, k) == IF k = 0 THEN {<<>>} ELSE LET P == SeqsUpTo(A, k - 1) IN P \cup {Append(p, a) : p \in {q \in P : Len(q) = k - 1}, a \in A}
AllPaths == {<<"add_path", p, o, d>> : p \in SeqsUpTo(Objs, MaxPath), o \in {"", "o1"}, d \in {"", "d1"}}

\* profile "pathread": well-formed paths node (link node)* of up to MaxPath objects (they may revisit nodes, edges and
\* links), single links, and reads of the link lookups in between
RECURSIVE WFPaths(_)
WFPaths(k) == IF k <= 1 THEN {<<n>> : n \in NodeIds}
              ELSE LET P == WFPaths(k - 2) IN P \cup {p \o <<l, n>> : p \in {q \in P : Len(q) = k - 2}, l \in LinkIds, n \in NodeIds}
PathReadCalls(dummy) == {<<"add_path", p, "", "">> : p \in {q \in WFPaths(MaxPath) : Len(q) >= 3}}
                        \cup {<<"add_link", u, l, v>> : u \in NodeIds, l \in LinkIds, v \in NodeIds}
                        \cup {<<"read", "nodes_by_link">>, <<"read", "links_by_name">>}

\* profile "near": start from every valid network shape enumerated by DynCases (read back from SHAPES_FILE), built
\* through the API, and explore every single further call: near-valid graphs, where ONE condition decides the verdict
Shapes == IF Profile = "near" THEN ndJsonDeserialize(IOEnv.SHAPES_FILE) ELSE <<>>
NId(a) == "n" \o ToString(a)
ClassRank(s, a, ramp) == Cardinality({b \in 1..a : s.orig[b] # "none" /\ ((s.orig[b] = "ramp") = ramp)})
DestRank(s, a) == Cardinality({b \in 1..a : s.dest[b] # "none"})
BaseCalls(s) ==
  [j \in DOMAIN s.edges |-> <<"add_link", NId(s.edges[j][1]), "l" \o ToString(j), NId(s.edges[j][2])>>]
  \o Flat([a \in 1..s.n |-> IF s.orig[a] = "none" THEN <<>>
                             ELSE <<<<"add_origin", (IF s.orig[a] = "ramp" THEN "r" ELSE "o") \o ToString(ClassRank(s, a, s.orig[a] = "ramp")), NId(a)>>>>])
  \o Flat([a \in 1..s.n |-> IF s.dest[a] = "none" THEN <<>> ELSE <<<<"add_destination", "d" \o ToString(DestRank(s, a)), NId(a)>>>>])
RECURSIVE FoldCalls(_, _)
FoldCalls(T, cs) == IF cs = <<>> THEN T ELSE FoldCalls(Apply(T, Head(cs)).S, Tail(cs))
NearCalls == {<<"add_node", n>> : n \in NodeIds}
             \cup {<<"add_link", u, l, v>> : u \in NodeIds, l \in {"l1", "l6"}, v \in NodeIds}
             \cup {<<"add_origin", o, n>> : o \in {"o1", "o4", "r1", "r4"}, n \in NodeIds}
             \cup {<<"add_destination", d, n>> : d \in {"d1", "d4"}, n \in NodeIds}

Calls == CASE Profile = "cache" -> SingleMut \cup ReadCalls \cup ViewCalls \cup BulkCalls \cup FewPaths \cup FailCalls
           [] Profile = "near" -> NearCalls
           [] Profile = "dense" -> {<<"add_link", u, l, v>> : u \in NodeIds, l \in LinkIds, v \in NodeIds}
           [] Profile = "ind" -> SingleMut \cup ReadCalls
                                 \cup {<<"add_path", <<u, l, v>>, o, d>> : u \in NodeIds, l \in LinkIds, v \in NodeIds, o \in {"", "o1"}, d \in {"", "d1"}}
                                 \cup {<<"add_links", <<<<u, "l1", v>>, <<v, "l2", u>>>>>> : u \in NodeIds, v \in NodeIds}
                                 \cup {<<"add_nodes", <<u, v>>>> : u \in NodeIds, v \in NodeIds}
           [] Profile = "pathread" -> PathReadCalls(0)
           [] Profile = "valid" -> SingleMut \cup ValidPaths \cup FailCalls
           [] Profile = "path"  -> AllPaths \cup {<<"add_link", "n1", "l1", "n2">>, <<"add_origin", "o1", "n1">>, <<"add_node", "n2">>}

CallEnabled(c) == c[1] \in {"out_links", "in_links"} => c[2] \in Range(S.nodes)

\* profile "ind": the inductive step of CacheCoherent.  Initial states are ALL type-correct states of the universe
\* whose memoised lookups are coherent (any subset memoised); one further call of any kind must keep every state
\* coherent.  Together with the empty network being coherent this covers histories of ANY length in this universe.
RECURSIVE Perms(_)
Perms(A) == IF A = {} THEN {<<>>} ELSE UNION {{<<a>> \o p : p \in Perms(A \ {a})} : a \in A}
RECURSIVE InjSeqs(_, _)
InjSeqs(A, k) == IF k = 0 THEN {<<>>} ELSE InjSeqs(A, k - 1) \cup {Append(p, a) : p \in {q \in InjSeqs(A, k - 1) : Len(q) = k - 1}, a \in A}
Distinct(p) == \A i, j \in DOMAIN p : p[i] = p[j] => i = j
\* (operators with a parameter: TLC evaluates zero-arity constant definitions eagerly at start-up, for every profile)
IndGraphs(dummy) ==
  UNION {UNION {{[nodes |-> ns, edges |-> es, link |-> lk, orig |-> og, dest |-> dg, cache |-> [k \in Lookups |-> Absent]] :
                   lk \in [Range(es) -> LinkIds],
                   og \in UNION {[A -> OrigIds] : A \in SUBSET Range(ns)},
                   dg \in UNION {[A -> DestIds] : A \in SUBSET Range(ns)}}
                : es \in {p \in InjSeqs(Range(ns) \X Range(ns), MaxPath) : Distinct(p)}}
         : ns \in UNION {Perms(A) : A \in SUBSET NodeIds}}
IndStates(dummy) == {[g EXCEPT !.cache = [k \in Lookups |-> IF k \in M THEN Has(Recompute(g, k)) ELSE Absent]] :
                g \in IndGraphs(dummy), M \in SUBSET Lookups}

Init == /\ res = <<"init">> /\ depth = 0
        /\ IF Profile = "ind" THEN hist = <<>> /\ S \in IndStates(0) ELSE
           IF Profile = "near"
           THEN \E i \in DOMAIN Shapes : hist = BaseCalls(Shapes[i]) /\ S = FoldCalls(EmptyState, hist)
           ELSE S = EmptyState /\ hist = <<>>
\* (profile "ind" makes ONE step from every initial state: the successors are checked, not expanded)
Next == \E c \in Calls :
          /\ Profile = "ind" => depth = 0
          /\ CallEnabled(c)
          /\ LET a == Apply(S, c) IN S' = a.S /\ res' = a.res
          /\ hist' = Append(hist, c)
          /\ depth' = depth + 1
Bound == depth <= MaxDepth
Spec == Init /\ [][Next]_vars

-----------------------------------------------------------------------------
(* what the harness compares after replaying hist' in the real library *)
PredIter(T) == Flat([i \in DOMAIN T.nodes |-> [j \in DOMAIN Pred(T, T.nodes[i]) |-> Pred(T, T.nodes[i])[j]]])
Pairs(f) == [i \in DOMAIN NodesWith(S', f) |-> <<NodesWith(S', f)[i], f[NodesWith(S', f)[i]]>>]
Emit == (EmitOn /\ depth' <= MaxDepth) =>
          PrintT("TRANS " \o ToJson(
            [h |-> hist', res |-> res',
             nodes |-> S'.nodes, links |-> LinkIter(S'), preds |-> PredIter(S'),
             orig |-> Pairs(S'.orig), dest |-> Pairs(S'.dest),
             valid |-> Valid(S'), violated |-> Violated(S'),
             cached |-> {k \in Lookups : S'.cache[k].has},
             lookups |-> [k \in Lookups |-> Recompute(S', k)]]))

-----------------------------------------------------------------------------
(* state invariants (functions of S) and transition properties (asserted on EVERY generated
   transition: with VIEW = S an ordinary invariant over res / hist would only see the first arrival) *)
InvCacheCoherent == CacheCoherent(S)                                        \* C08
InvOnlyNodes == OnlyNodes(S)                                                \* C09
InvWellTyped == OnlyNodes(S) => WellTyped(S)                                \* C09
IsSuccess(c) == (c[1] \in {"add_node", "add_nodes", "add_link", "add_links", "add_origin", "add_destination"} /\ ~MalformedCall(c))
                \/ (c[1] = "add_path" /\ WellFormedPath(c[2]))
Check ==
  LET c == hist'[Len(hist')]
      ok == SelectSeq(hist', IsSuccess)
      allOk == \A i \in DOMAIN hist' : (hist'[i][1] = "add_path" => WellFormedPath(hist'[i][2])) /\ ~MalformedCall(hist'[i])
  IN /\ Assert(ReadFresh(S', c, res'), <<"C08 ReadFresh violated", hist'>>)
     /\ Assert(MalformedRejected(c, res'), <<"C09 MalformedRejected violated", hist'>>)
     /\ Assert(WellFormedAccepted(c, res'), <<"C09 WellFormedAccepted violated", hist'>>)
     /\ Assert(allOk => GraphOf(S') = Described(ok), <<"C09 GraphIsDescribed violated", hist'>>)
     /\ Assert(c[1] = "is_valid" => (res'[2] <=> Violated(S) = {}), <<"C06 ValidIff violated", hist'>>)
\* profile "ind": a violated inductive step is reported with everything the harness needs to rebuild the pre-state in
\* the real library (graph in insertion order, which lookups are memoised) and the offending call
IndCheck ==
  Assert(CacheCoherent(S'),
         "INDFAIL " \o ToJson([nodes |-> S.nodes, edges |-> [i \in DOMAIN S.edges |-> <<S.edges[i][1], S.link[S.edges[i]], S.edges[i][2]>>],
                               orig |-> [i \in DOMAIN NodesWith(S, S.orig) |-> <<S.orig[NodesWith(S, S.orig)[i]], NodesWith(S, S.orig)[i]>>],
                               dest |-> [i \in DOMAIN NodesWith(S, S.dest) |-> <<S.dest[NodesWith(S, S.dest)[i]], NodesWith(S, S.dest)[i]>>],
                               cached |-> {k \in Lookups : S.cache[k].has}, call |-> hist'[Len(hist')]]))
Step == (IF Profile = "ind" THEN IndCheck ELSE Check) /\ Emit
=============================================================================

CONSTANTS Mode = "shapes"
 MaxNodes = 3
 MaxLinks = 3
 Seed = 0
 Variants = 1
 Generic = 1
 Corners = 0
 Family = "base"
 Shard = 0
 NShards = 1
INIT Init
NEXT Next
CHECK_DEADLOCK FALSE

------------------------------- MODULE MC_Life -------------------------------
(* Bounded instances of Lifecycle: all interleavings of the public lifecycle calls up to MaxDepth.
   Every generated transition is checked (Assert) and printed for replay into the real library. *)
EXTENDS Lifecycle, Json

CONSTANTS MaxDepth, Profile, EmitOn

VARIABLES S, res, hist
vars == <<S, res, hist>>
\* profile "hist": no two histories are merged (state hidden in the implementation - memos inside an engine or an
\* element - is not part of S, so calls that leave S unchanged, like compile, still matter)
View == IF Profile = "hist" THEN <<S, hist>> ELSE <<S, <<>>>>

Pars == {"P1", "P2"}
ReadyCalls ==
  {<<"net_step", k, p, "O0", "">> : k \in {"sx", "mx"}, p \in Pars}
  \cup {<<"net_step", "", "P1", "O1", "">>}
  \cup {<<"init", e, "">> : e \in Elements}
  \cup {<<"init_all", "">>, <<"init_all", "mx">>}
  \cup {<<"step", e, "", "P1", "O0">> : e \in Stateful}
  \cup {<<"add_later", "R2">>, <<"add_later", "L3">>, <<"add_later", "D1">>}
  \cup {<<"compile", "sx">>, <<"compile", "mx">>}
  \cup {<<"use_inst", "mx_engine", "mx">>}
  \cup {<<"net_step_fail", "">>}
EngineCalls ==
  {<<"use", n>> : n \in {"numpy", "casadi", "bogus"}}
  \cup {<<"use_inst", "spy_" \o k, k>> : k \in Kinds}
  \cup {<<"net_step", k, "P1", "O0", "">> : k \in {"", "np", "sx", "mx"}}
  \cup {<<"init_all", k>> : k \in {"", "np", "mx"}}
  \cup {<<"init", e, k>> : e \in {"L1", "O1", "D1"}, k \in {"", "np", "mx"}}
  \cup {<<"add_later", "D1">>}
  \cup {<<"net_step_fail", k>> : k \in {"", "np", "mx"}}
  \cup {<<"step", e, k, "P1", "O0">> : e \in {"L2", "R1"}, k \in {"", "np", "sx", "mx"}}
PureCalls ==
  {<<"net_step", k, p, o, v>> : k \in {"np", "sx"}, p \in {"P1"}, o \in {"O0", "O1"}, v \in {"V1", "V2"}}
  \cup {<<"net_step", "np", "P2", "O0", "V1">>, <<"net_step", "mx", "P1", "O0", "V1">>}
  \cup {<<"compile", "sx">>, <<"compile", "mx">>}
  \cup {<<"init", e, "np">> : e \in {"L2", "O1"}}
  \cup {<<"step", e, "np", "P1", "O0">> : e \in {"L2", "R1"}}
  \cup {<<"add_later", "R2">>, <<"add_later", "D1">>}
  \cup {<<"net_step_fail", "np">>}
HistCalls ==
  {<<"net_step", "sx", "P1", "O0", "">>, <<"compile", "sx">>, <<"add_later", "D1">>, <<"add_later", "R2">>,
   <<"init_all", "">>, <<"init", "D1", "">>, <<"net_step_fail", "">>, <<"step", "L2", "", "P1", "O0">>,
   <<"step", "L1", "", "P2", "O0">>}
Calls == CASE Profile = "ready" -> ReadyCalls [] Profile = "engine" -> EngineCalls [] Profile = "pure" -> PureCalls
           [] Profile = "hist" -> HistCalls

Init == S = Init0 /\ res = <<"init">> /\ hist = <<>>
Next == \E c \in Calls :
          /\ CallEnabled(S, c)
          /\ LET a == Apply(S, c) IN S' = a.S /\ res' = a.res
          /\ hist' = Append(hist, c)
Bound == Len(hist) <= MaxDepth

Check ==
  LET c == hist'[Len(hist')]
  IN /\ Assert(ReadyIff(S, c, res'), <<"C19 ReadyIff", hist'>>)
     /\ Assert(StepMakesReady(S, c, S'), <<"C19 StepMakesReady", hist'>>)
     /\ Assert(TouchUnreadies(S, c, S'), <<"C19 TouchUnreadies", hist'>>)
     /\ Assert(AddUnreadies(S, c, S'), <<"C19 AddUnreadies", hist'>>)
     /\ Assert(AddDestUnreadies(S, c, S'), <<"C19 AddDestUnreadies", hist'>>)
     /\ Assert(FailedStepUnreadies(S, c, S'), <<"C19 FailedStepUnreadies", hist'>>)
     /\ Assert(MapsConsistent(S'), <<"MapsConsistent", hist'>>)
     /\ Assert(UseSemantics(S, c, S', res'), <<"C13 UseSemantics", hist'>>)
     /\ Assert(ExplicitHonoured(S, c, S'), <<"C13 ExplicitHonoured", hist'>>)
Emit == (EmitOn /\ Len(hist') <= MaxDepth) =>
          PrintT("TRANS " \o ToJson(
            [h |-> hist', res |-> res', cur |-> S'.cur, la |-> S'.la, r |-> S'.r, dst |-> S'.dst,
             vars |-> [e \in InNet(S') \cap Declaring |-> S'.vars[e]],
             nxt |-> [e \in InNet(S') \cap Stateful |-> IF S'.nxt[e].has THEN S'.nxt[e].kind ELSE ""],
             ready |-> Ready(S'), uniform |-> Uniform(S'),
             maps |-> [states |-> MapStates(S'), next_states |-> MapNext(S'), actions |-> MapActions(S'), disturbances |-> MapDisturbances(S')],
             lastpar |-> IF S'.nxt["L2"].has THEN <<S'.nxt["L2"].par, S'.nxt["L2"].opts, S'.nxt["L2"].vals>> ELSE <<"", "", "">>]))
Step == Check /\ Emit
=============================================================================

------------------------------- MODULE Metanet -------------------------------
(***************************************************************************)
(* The METANET one-step model (Hegyi 2004, eqs. 3.1 - 3.11, node rules of  *)
(* section 3.2.2, origins of 3.2.1 / 3.3.3) as pure operators over exact   *)
(* extended rationals (module Real).  This module is the ORACLE for the    *)
(* dynamics layer of sym-metanet: it is written from the thesis and the    *)
(* library's documentation, set-based (no construction order, no names),   *)
(* and evaluated by TLC.  Deliberate deviations of the library from the    *)
(* thesis are named operators (RatioGuard, MergingNeedsEnteringLinks,      *)
(* SignedLaneDifference).                                                  *)
(*                                                                         *)
(*  net : [links   : [LinkId -> [up, down, N, lam, L, rho_max, rho_crit,   *)
(*                               v_free, a, beta, ctl, vsl, alpha]],       *)
(*         origins : [OrigId -> [node, kind, C]],                          *)
(*         dests   : [DestId -> [node, kind]]]                             *)
(*        ctl = TRUE for a speed-limited link, vsl \subseteq 1..N its      *)
(*        limited segments (1-based), kind of origin in OriginKinds, of    *)
(*        destination in {"free","congested"}                              *)
(*  x   : [rho : [LinkId -> Seq], v : [LinkId -> Seq], w : [Queued -> R]]  *)
(*  u   : [vctrl : [ctl links -> Seq (one per limited segment)],           *)
(*         o : [Queued -> R]]   (v_ctrl | r | q according to the kind)     *)
(*  d   : [o : [Queued -> R], dest : [congested dests -> R]]               *)
(*  par : [T, tau, eta, kappa, delta, phi, hasDelta, hasPhi]               *)
(*  opts: [pis, pid, piq, pns, pnd, pnq]  positivity of init speed /       *)
(*        density / queue and of next speed / density / queue              *)
(***************************************************************************)
EXTENDS Laws
LOCAL INSTANCE Folds

OriginKinds == {"ideal", "mainstream", "ramp_in", "ramp_out", "simp_limited", "simp_unlimited"}
RampKinds   == {"ramp_in", "ramp_out", "simp_limited", "simp_unlimited"}
DestKinds   == {"free", "congested"}
NoOpts == [pis |-> FALSE, pid |-> FALSE, piq |-> FALSE, pns |-> FALSE, pnd |-> FALSE, pnq |-> FALSE]

Pick(S) == CHOOSE s \in S : TRUE
Sum(S, f(_)) == MapThenFoldSet(LAMBDA a, b : a (+) b, Zero, f, Pick, S)

Links(net)     == DOMAIN net.links
Origins(net)   == DOMAIN net.origins
Dests(net)     == DOMAIN net.dests
NodesOf(net)   == {net.links[l].up : l \in Links(net)} \cup {net.links[l].down : l \in Links(net)}
In(net, n)     == {l \in Links(net) : net.links[l].down = n}
Out(net, n)    == {l \in Links(net) : net.links[l].up = n}
OrigAt(net, n) == {o \in Origins(net) : net.origins[o].node = n}
DestAt(net, n) == {k \in Dests(net) : net.dests[k].node = n}
Queued(net)    == {o \in Origins(net) : net.origins[o].kind # "ideal"}
Congested(net) == {k \in Dests(net) : net.dests[k].kind = "congested"}
CtlLinks(net)  == {l \in Links(net) : net.links[l].ctl}
IsRamp(k)      == k \in RampKinds
Segs(net, l)   == 1..net.links[l].N

-----------------------------------------------------------------------------
(* Link laws *)

\* (3.1) q = rho v lambda
Flow(net, x, l, i) == PFlow(x.rho[l][i], x.v[l][i], net.links[l].lam)
LastFlow(net, x, l) == Flow(net, x, l, net.links[l].N)

\* (3.4) V(rho) = v_free exp(-1/a (rho/rho_crit)^a)
Veq(lk, rho) == PVeq(rho, lk.v_free, lk.rho_crit, lk.a)

\* (3.11) speed-limited equilibrium speed; the k-th control value belongs to the
\* k-th limited segment in increasing order
VslIndex(lk, i) == Cardinality({j \in lk.vsl : j <= i})
VeqEff(lk, x, u, l, i) ==
  IF lk.ctl /\ i \in lk.vsl
  THEN PCtrlVeq(x.rho[l][i], u.vctrl[l][VslIndex(lk, i)], lk.alpha, lk.v_free, lk.rho_crit, lk.a)
  ELSE Veq(lk, x.rho[l][i])

-----------------------------------------------------------------------------
(* Origin laws *)

\* the link leaving an origin's node (unique in a valid network)
OLink(net, o) == Pick({l \in Links(net) : net.links[l].up = net.origins[o].node})

Term3(lk, rho1) == PTerm3(lk.rho_max, rho1, lk.rho_crit)
Demand(par, x, d, o) == PDemand(d.o[o], x.w[o], par.T)

Vcrit(lk) == PVcrit(lk.v_free, lk.rho_crit, lk.a)
QCap(lk) == PQCap(lk.lam, lk.v_free, lk.rho_crit, lk.a)
MainVlim(net, x, u, o) == RMin(u.o[o], x.v[OLink(net, o)][1])
MainLimit(lk, vlim) == PMainLimit(vlim, lk.lam, lk.v_free, lk.rho_crit, lk.a)
MainLimitThesis(lk, vlim) == PMainLimitThesis(vlim, lk.lam, lk.v_free, lk.rho_crit, lk.a)

OriginFlow(net, par, x, u, d, o) ==
  LET og == net.origins[o]  l == OLink(net, o)  lk == net.links[l]
  IN CASE og.kind = "ideal"          -> Flow(net, x, l, 1)
       [] og.kind = "ramp_in"        -> PRampFlow("in", d.o[o], x.w[o], og.C, u.o[o], lk.rho_max, x.rho[l][1], lk.rho_crit, par.T)    \* (3.5)
       [] og.kind = "ramp_out"       -> PRampFlow("out", d.o[o], x.w[o], og.C, u.o[o], lk.rho_max, x.rho[l][1], lk.rho_crit, par.T)   \* (3.6)
       [] og.kind = "simp_unlimited" -> PSimpFlow("unlimited", u.o[o], d.o[o], x.w[o], og.C, lk.rho_max, x.rho[l][1], lk.rho_crit, par.T)
       [] og.kind = "simp_limited"   -> PSimpFlow("limited", u.o[o], d.o[o], x.w[o], og.C, lk.rho_max, x.rho[l][1], lk.rho_crit, par.T)
       [] og.kind = "mainstream"     -> PMainFlow(d.o[o], x.w[o], u.o[o], x.v[l][1], lk.rho_crit, lk.a, lk.v_free, lk.lam, par.T)

NodeOriginFlow(net, par, x, u, d, n) == Sum(OrigAt(net, n), LAMBDA o : OriginFlow(net, par, x, u, d, o))

\* queue: w+ = w + T (d - q_o)
NextW(net, par, x, u, d, o) == PStepQueue(x.w[o], d.o[o], OriginFlow(net, par, x, u, d, o), par.T)

-----------------------------------------------------------------------------
(* Node rules, section 3.2.2 *)

NodeInflow(net, par, x, u, d, n) ==
  Sum(In(net, n), LAMBDA m : LastFlow(net, x, m)) (+) NodeOriginFlow(net, par, x, u, d, n)
Share(net, l) == net.links[l].beta (/) Sum(Out(net, net.links[l].up), LAMBDA m : net.links[m].beta)
\* q_{m,0} = beta_m / sum(beta) * (entering last-segment flows + origin flow)
UpFlow(net, par, x, u, d, l) == Share(net, l) (.) NodeInflow(net, par, x, u, d, net.links[l].up)

\* (3.10) flow-weighted speed of the entering links; at an origin boundary v_{m,0} = v_{m,1}
UpSpeed(net, x, l) ==
  LET I == In(net, net.links[l].up)
  IN IF I = {} THEN x.v[l][1]
     ELSE IF Cardinality(I) = 1 THEN x.v[Pick(I)][net.links[Pick(I)].N]
     ELSE Sum(I, LAMBDA m : x.v[m][net.links[m].N] (.) LastFlow(net, x, m)) (/) Sum(I, LAMBDA m : LastFlow(net, x, m))

\* (3.9) over the FIRST segments of the leaving links; destination laws otherwise
DownDensity(net, x, d, l) ==
  LET n == net.links[l].down  lk == net.links[l]  O == Out(net, n)  D == DestAt(net, n)
  IN IF D # {}
     THEN IF net.dests[Pick(D)].kind = "free" THEN PDestFree(x.rho[l][lk.N], lk.rho_crit)
          ELSE PDestCongested(x.rho[l][lk.N], d.dest[Pick(D)], lk.rho_crit)
     ELSE IF Cardinality(O) = 1 THEN x.rho[Pick(O)][1]
     ELSE Sum(O, LAMBDA m : x.rho[m][1] (.) x.rho[m][1]) (/) Sum(O, LAMBDA m : x.rho[m][1])

-----------------------------------------------------------------------------
(* Segment updates *)

RampAt(net, n) == {o \in OrigAt(net, n) : IsRamp(net.origins[o].kind)}
\* named deviation: the merging term (3.7) is only applied when the ramp's node also has entering links
MergingNeedsEnteringLinks(net, l) == In(net, net.links[l].up) # {}
MergingApplies(net, par, l) ==
  par.hasDelta /\ RampAt(net, net.links[l].up) # {} /\ MergingNeedsEnteringLinks(net, l)
\* named deviation: the lane difference is signed (a lane gain accelerates), only with exactly one leaving link
SignedLaneDifference(net, l) ==
  LET O == Out(net, net.links[l].down)
  IN IF Cardinality(O) = 1 THEN net.links[l].lam (-) net.links[Pick(O)].lam ELSE Zero
LaneDrop(net, par, l) == IF par.hasPhi THEN SignedLaneDifference(net, l) ELSE Zero

\* (3.2)
NextRho(net, par, x, u, d, l, i) ==
  LET lk == net.links[l]
      qup == IF i = 1 THEN UpFlow(net, par, x, u, d, l) ELSE Flow(net, x, l, i - 1)
  IN PStepDensity(x.rho[l][i], Flow(net, x, l, i), qup, lk.lam, lk.L, par.T)

Relax(net, par, x, u, l, i) == PRelax(x.v[l][i], VeqEff(net.links[l], x, u, l, i), par.tau, par.T)
Convect(net, par, x, l, i) ==
  LET vup == IF i = 1 THEN UpSpeed(net, x, l) ELSE x.v[l][i - 1]
  IN PConvect(x.v[l][i], vup, net.links[l].L, par.T)
Anticip(net, par, x, d, l, i) ==
  LET lk == net.links[l]
      rdn == IF i = lk.N THEN DownDensity(net, x, d, l) ELSE x.rho[l][i + 1]
  IN PAnticip(x.rho[l][i], rdn, lk.L, par.tau, par.eta, par.kappa, par.T)
\* (3.7)
Merge(net, par, x, u, d, l, i) ==
  LET lk == net.links[l]
  IN IF i = 1 /\ MergingApplies(net, par, l)
     THEN PMerge(x.v[l][1], x.rho[l][1], NodeOriginFlow(net, par, x, u, d, lk.up), lk.lam, lk.L, par.delta, par.kappa, par.T)
     ELSE Zero
\* (3.8)
Drop(net, par, x, l, i) ==
  LET lk == net.links[l]
  IN IF i = lk.N /\ LaneDrop(net, par, l) # Zero
     THEN PDrop(x.v[l][i], x.rho[l][i], LaneDrop(net, par, l), lk.lam, lk.L, par.phi, lk.rho_crit, par.T)
     ELSE Zero

\* (3.3) + (3.7) + (3.8)
NextV(net, par, x, u, d, l, i) ==
  ((((x.v[l][i] (+) Relax(net, par, x, u, l, i)) (+) Convect(net, par, x, l, i))
      (-) Anticip(net, par, x, d, l, i)) (-) Merge(net, par, x, u, d, l, i)) (-) Drop(net, par, x, l, i)

\* largest magnitude among the summed terms of an output (rounding allowance of the binding)
Mx(a, b) == IF RIsNaN(a) THEN b ELSE IF RIsNaN(b) THEN a ELSE RMax(a, b)
ScaleV(net, par, x, u, d, l, i) ==
  Mx(Mx(Mx(RAbs(x.v[l][i]), RAbs(Relax(net, par, x, u, l, i))), Mx(RAbs(Convect(net, par, x, l, i)), RAbs(Anticip(net, par, x, d, l, i)))),
     Mx(RAbs(Merge(net, par, x, u, d, l, i)), RAbs(Drop(net, par, x, l, i))))
ScaleRho(net, par, x, u, d, l, i) ==
  LET lk == net.links[l]  c == (par.T (/) lk.lam) (/) lk.L
      qup == IF i = 1 THEN UpFlow(net, par, x, u, d, l) ELSE Flow(net, x, l, i - 1)
  IN Mx(RAbs(x.rho[l][i]), Mx(RAbs(c (.) qup), RAbs(c (.) Flow(net, x, l, i))))
ScaleW(net, par, x, u, d, o) ==
  Mx(RAbs(x.w[o]), Mx(RAbs(par.T (.) d.o[o]), RAbs(par.T (.) OriginFlow(net, par, x, u, d, o))))

-----------------------------------------------------------------------------
(* One step *)

Step(net, par, x, u, d) ==
  [rho |-> [l \in Links(net) |-> [i \in Segs(net, l) |-> NextRho(net, par, x, u, d, l, i)]],
   v   |-> [l \in Links(net) |-> [i \in Segs(net, l) |-> NextV(net, par, x, u, d, l, i)]],
   w   |-> [o \in Queued(net) |-> NextW(net, par, x, u, d, o)]]

Pos(a) == RMax(Zero, a)
ClampInit(opts, x) ==
  [rho |-> [l \in DOMAIN x.rho |-> [i \in DOMAIN x.rho[l] |-> IF opts.pid THEN Pos(x.rho[l][i]) ELSE x.rho[l][i]]],
   v   |-> [l \in DOMAIN x.v   |-> [i \in DOMAIN x.v[l]   |-> IF opts.pis THEN Pos(x.v[l][i]) ELSE x.v[l][i]]],
   w   |-> [o \in DOMAIN x.w   |-> IF opts.piq THEN Pos(x.w[o]) ELSE x.w[o]]]
ClampNext(opts, y) ==
  [rho |-> [l \in DOMAIN y.rho |-> [i \in DOMAIN y.rho[l] |-> IF opts.pnd THEN Pos(y.rho[l][i]) ELSE y.rho[l][i]]],
   v   |-> [l \in DOMAIN y.v   |-> [i \in DOMAIN y.v[l]   |-> IF opts.pns THEN Pos(y.v[l][i]) ELSE y.v[l][i]]],
   w   |-> [o \in DOMAIN y.w   |-> IF opts.pnq THEN Pos(y.w[o]) ELSE y.w[o]]]

\* the library's step with positivity options (C11): clamps at zero around the plain step
StepOpt(net, par, opts, x, u, d) == ClampNext(opts, Step(net, par, ClampInit(opts, x), u, d))

\* the flows reported as extra outputs (C05) are those of the (clamped) input state
FlowsOut(net, par, opts, x, u, d) ==
  LET xc == ClampInit(opts, x)
  IN [q   |-> [l \in Links(net) |-> [i \in Segs(net, l) |-> Flow(net, xc, l, i)]],
      q_o |-> [o \in Origins(net) |-> OriginFlow(net, par, xc, u, d, o)]]

-----------------------------------------------------------------------------
(* Conservation (C02), exact *)

Vehicles(net, x) ==
  Sum(Links(net), LAMBDA l : Sum(Segs(net, l), LAMBDA i : (x.rho[l][i] (.) net.links[l].lam) (.) net.links[l].L))
  (+) Sum(Queued(net), LAMBDA o : x.w[o])
ExitLinks(net) == {l \in Links(net) : DestAt(net, net.links[l].down) # {}}
Balance(net, par, x, u, d) ==
  par.T (.) ((Sum(Queued(net), LAMBDA o : d.o[o])
              (+) Sum(Origins(net) \ Queued(net), LAMBDA o : OriginFlow(net, par, x, u, d, o)))
             (-) Sum(ExitLinks(net), LAMBDA l : LastFlow(net, x, l)))
NetworkConserves(net, par, x, u, d) ==
  (Vehicles(net, Step(net, par, x, u, d)) (-) Vehicles(net, x)) = Balance(net, par, x, u, d)
NodeConserves(net, par, x, u, d, n) ==
  Out(net, n) # {} =>
    Sum(Out(net, n), LAMBDA l : UpFlow(net, par, x, u, d, l)) = NodeInflow(net, par, x, u, d, n)

-----------------------------------------------------------------------------
(* Definedness (C07): the model's own 0/0 *)

MergeZeroInflow(net, x, n) ==
  Cardinality(In(net, n)) >= 2 /\ Out(net, n) # {} /\ Sum(In(net, n), LAMBDA m : LastFlow(net, x, m)) = Zero
BifurcationZeroDensity(net, x, n) ==
  Cardinality(Out(net, n)) >= 2 /\ In(net, n) # {} /\ Sum(Out(net, n), LAMBDA m : x.rho[m][1]) = Zero
Defined(net, x) == \A n \in NodesOf(net) : ~MergeZeroInflow(net, x, n) /\ ~BifurcationZeroDensity(net, x, n)

AllFinite(y) ==
  /\ \A l \in DOMAIN y.rho : \A i \in DOMAIN y.rho[l] : RIsFinite(y.rho[l][i]) /\ RIsFinite(y.v[l][i])
  /\ \A o \in DOMAIN y.w : RIsFinite(y.w[o])

\* admissible physical domain of C07 / C17
NonNeg(a) == RLe(Zero, a)
Admissible(net, x, u, d) ==
  /\ \A l \in Links(net) : \A i \in Segs(net, l) :
        NonNeg(x.rho[l][i]) /\ NonNeg(x.v[l][i]) /\ RIsFinite(x.rho[l][i]) /\ RIsFinite(x.v[l][i])
  /\ \A o \in Queued(net) : NonNeg(x.w[o]) /\ NonNeg(d.o[o]) /\ NonNeg(u.o[o]) /\ RIsFinite(x.w[o]) /\ RIsFinite(d.o[o])
  /\ \A o \in Queued(net) : net.origins[o].kind \in {"ramp_in", "ramp_out"} => RLe(u.o[o], One)
  /\ \A o \in Queued(net) : RLe(x.rho[OLink(net, o)][1], net.links[OLink(net, o)].rho_max)
  /\ \A k \in Congested(net) : NonNeg(d.dest[k]) /\ RIsFinite(d.dest[k])
  /\ \A l \in CtlLinks(net) : \A k \in DOMAIN u.vctrl[l] : NonNeg(u.vctrl[l][k])

-----------------------------------------------------------------------------
(* Origin flow bounds (C17), for admissible arguments *)

OriginBounds(net, par, x, u, d, o) ==
  LET q == OriginFlow(net, par, x, u, d, o)  og == net.origins[o]  lk == net.links[OLink(net, o)]
  IN og.kind \in {"mainstream", "ramp_in", "ramp_out", "simp_limited"} =>
       /\ NonNeg(q)
       /\ RLe(q, Demand(par, x, d, o))
       /\ og.kind = "mainstream" => RLe(q, QCap(lk))
       /\ og.kind # "mainstream" => RLe(q, og.C)
       /\ (og.kind # "mainstream" /\ x.rho[OLink(net, o)][1] = lk.rho_max) => q = Zero
       /\ NonNeg(NextW(net, par, x, u, d, o))

-----------------------------------------------------------------------------
(* Locality (C10): the inputs an output may depend on, stated declaratively *)
\* slots (kind, element, index): <<"rho", l, i>>, <<"v", l, i>>, <<"w", o, 1>>, <<"uo", o, 1>> (control of an origin),
\* <<"do", o, 1>> (demand), <<"vc", l, k>> (k-th speed limit of link l), <<"dd", k, 1>> (scenario of a congested destination)

Seg(l, i) == {<<"rho", l, i>>, <<"v", l, i>>}
OriginSlots(net, o) ==      \* what an origin's flow may depend on
  LET l == OLink(net, o)
  IN IF net.origins[o].kind = "ideal" THEN Seg(l, 1)
     ELSE {<<"w", o, 1>>, <<"uo", o, 1>>, <<"do", o, 1>>} \cup Seg(l, 1)
NodeInflowSlots(net, n) ==
  UNION {Seg(m, net.links[m].N) : m \in In(net, n)} \cup UNION {OriginSlots(net, o) : o \in OrigAt(net, n)}
DepsRho(net, l, i) ==
  Seg(l, i) \cup (IF i = 1 THEN NodeInflowSlots(net, net.links[l].up) ELSE Seg(l, i - 1))
DepsV(net, par, l, i) ==
  LET lk == net.links[l]
      up == IF i > 1 THEN {<<"v", l, i - 1>>}
            ELSE IF In(net, lk.up) = {} THEN {<<"v", l, 1>>}
            ELSE UNION {Seg(m, net.links[m].N) : m \in In(net, lk.up)}
      dn == IF i < lk.N THEN {<<"rho", l, i + 1>>}
            ELSE IF DestAt(net, lk.down) # {}
                 THEN {<<"rho", l, lk.N>>} \cup {<<"dd", k, 1>> : k \in DestAt(net, lk.down) \cap Congested(net)}
                 ELSE {<<"rho", m, 1>> : m \in Out(net, lk.down)}
      lim == IF lk.ctl /\ i \in lk.vsl THEN {<<"vc", l, VslIndex(lk, i)>>} ELSE {}
      mrg == IF i = 1 /\ MergingApplies(net, par, l)
             THEN UNION {OriginSlots(net, o) : o \in RampAt(net, lk.up)} ELSE {}
  IN Seg(l, i) \cup up \cup dn \cup lim \cup mrg
DepsW(net, o) == OriginSlots(net, o) \cup {<<"w", o, 1>>, <<"do", o, 1>>, <<"uo", o, 1>>}

InputSlots(net) ==
  UNION {UNION {Seg(l, i) : i \in Segs(net, l)} : l \in Links(net)}
  \cup UNION {{<<"w", o, 1>>, <<"uo", o, 1>>, <<"do", o, 1>>} : o \in Queued(net)}
  \cup UNION {{<<"vc", l, k>> : k \in 1..Cardinality(net.links[l].vsl)} : l \in CtlLinks(net)}
  \cup {<<"dd", k, 1>> : k \in Congested(net)}
OutputSlots(net) ==
  UNION {UNION {Seg(l, i) : i \in Segs(net, l)} : l \in Links(net)} \cup {<<"w", o, 1>> : o \in Queued(net)}
Deps(net, par, y) ==
  CASE y[1] = "rho" -> DepsRho(net, y[2], y[3])
    [] y[1] = "v"   -> DepsV(net, par, y[2], y[3])
    [] y[1] = "w"   -> DepsW(net, y[2])

-----------------------------------------------------------------------------
(* Branch signature: which argument of each min / max / if is active (coverage) *)

Cmp(a, b) == IF RIsNaN(a) \/ RIsNaN(b) THEN "?" ELSE IF RLt(a, b) THEN "<" ELSE IF a = b THEN "=" ELSE ">"
OriginSig(net, par, x, u, d, o) ==
  LET og == net.origins[o]  l == OLink(net, o)  lk == net.links[l]
  IN CASE og.kind = "ideal" -> <<"ideal">>
       [] og.kind = "simp_unlimited" -> <<"simp_unlimited">>
       [] og.kind = "mainstream" ->
            <<"mainstream", Cmp(u.o[o], x.v[l][1]), Cmp(MainVlim(net, x, u, o), Vcrit(lk)),
              Cmp(MainVlim(net, x, u, o) (/) lk.v_free, RQ(1, 20)),
              Cmp(Demand(par, x, d, o), MainLimit(lk, MainVlim(net, x, u, o)))>>
       [] OTHER ->
            <<og.kind, Cmp(IF og.kind = "ramp_in" THEN u.o[o] ELSE One, Term3(lk, x.rho[l][1])),
              Cmp(Demand(par, x, d, o), og.C (.) RMin(IF og.kind = "ramp_in" THEN u.o[o] ELSE One, Term3(lk, x.rho[l][1]))),
              IF og.kind = "simp_limited"
              THEN Cmp(u.o[o], RMin(Demand(par, x, d, o), og.C (.) RMin(One, Term3(lk, x.rho[l][1])))) ELSE "-">>
LinkSig(net, par, x, u, d, l) ==
  LET lk == net.links[l]  I == In(net, lk.up)  O == Out(net, lk.down)  D == DestAt(net, lk.down)
  IN <<IF lk.N = 1 THEN "N1" ELSE "N>1",
       IF I = {} THEN "in0" ELSE IF Cardinality(I) = 1 THEN "in1" ELSE "in2+",
       IF Cardinality(Out(net, lk.up)) = 1 THEN "split1" ELSE "split2+",
       IF OrigAt(net, lk.up) = {} THEN "noorig" ELSE net.origins[Pick(OrigAt(net, lk.up))].kind,
       IF D # {} THEN <<net.dests[Pick(D)].kind, Cmp(x.rho[l][lk.N], lk.rho_crit),
                        IF net.dests[Pick(D)].kind = "congested" THEN Cmp(RMin(x.rho[l][lk.N], lk.rho_crit), d.dest[Pick(D)]) ELSE "-">>
       ELSE IF Cardinality(O) = 1 THEN <<"out1">> ELSE <<"out2+">>,
       IF MergingApplies(net, par, l) THEN "merge" ELSE "nomerge",
       Cmp(LaneDrop(net, par, l), Zero),
       IF lk.ctl THEN {<<i, Cmp(Veq(lk, x.rho[l][i]), (One (+) lk.alpha) (.) u.vctrl[l][VslIndex(lk, i)])>> : i \in lk.vsl} ELSE {}>>
BranchSig(net, par, x, u, d) ==
  <<{LinkSig(net, par, x, u, d, l) : l \in Links(net)}, {OriginSig(net, par, x, u, d, o) : o \in Origins(net)}>>
\* topology-only pattern of a link: (upstream node pattern, link pattern, downstream node pattern)
LocalPattern(net, par, l) ==
  LET lk == net.links[l]
  IN <<Cardinality(In(net, lk.up)), Cardinality(Out(net, lk.up)),
       IF OrigAt(net, lk.up) = {} THEN "none" ELSE net.origins[Pick(OrigAt(net, lk.up))].kind,
       lk.N, lk.ctl, Cardinality(lk.vsl),
       Cardinality(In(net, lk.down)), Cardinality(Out(net, lk.down)),
       IF DestAt(net, lk.down) = {} THEN "none" ELSE net.dests[Pick(DestAt(net, lk.down))].kind,
       IF OrigAt(net, lk.down) = {} THEN "none" ELSE net.origins[Pick(OrigAt(net, lk.down))].kind,
       lk.up = lk.down, MergingApplies(net, par, l), RSign(LaneDrop(net, par, l))>>

-----------------------------------------------------------------------------
(* Structural validity of a network record: the nine documented conditions
   (condition 1, duplicates, cannot arise in this representation: ids are keys) *)
ValidNet(net) ==
  LET N == NodesOf(net) \cup {net.origins[o].node : o \in Origins(net)} \cup {net.dests[k].node : k \in Dests(net)}
  IN /\ \A o1, o2 \in Origins(net) : net.origins[o1].node = net.origins[o2].node => o1 = o2
     /\ \A k1, k2 \in Dests(net) : net.dests[k1].node = net.dests[k2].node => k1 = k2
     /\ \A l1, l2 \in Links(net) : (net.links[l1].up = net.links[l2].up /\ net.links[l1].down = net.links[l2].down) => l1 = l2
     /\ \A n \in N :
          /\ ~(OrigAt(net, n) # {} /\ DestAt(net, n) # {})                               \* (2)
          /\ ~(In(net, n) = {} /\ Out(net, n) = {})                                      \* (3)
          /\ In(net, n) = {} => OrigAt(net, n) # {}                                      \* (4)
          /\ Out(net, n) = {} => DestAt(net, n) # {}                                     \* (5)
          /\ \A o \in OrigAt(net, n) : ~IsRamp(net.origins[o].kind) => In(net, n) = {}   \* (6)
          /\ OrigAt(net, n) # {} => Cardinality(Out(net, n)) <= 1                        \* (7)
          /\ DestAt(net, n) # {} => Cardinality(In(net, n)) <= 1                         \* (8)
          /\ DestAt(net, n) # {} => Out(net, n) = {}                                     \* (9)
=============================================================================

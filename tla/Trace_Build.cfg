CONSTANTS
 NodeIds = {"n1", "n2", "n3", "n4", "n5", "n6"}
 LinkIds = {"l1", "l2", "l3", "l4", "l5", "l6"}
 OrigIds = {"o1", "o2", "o3", "o4", "r1", "r2", "r3", "r4"}
 RampIds = {"r1", "r2", "r3", "r4"}
 DestIds = {"d1", "d2", "d3", "d4"}
 InvalTable <- NoInvalTable
 NameOf <- TraceNameOf
 InvalImplicitNodes = TRUE
 DestNameWrite = FALSE
 PathEndChecked = TRUE
INIT Init
NEXT Next
CHECK_DEADLOCK FALSE

CONSTANTS
 NodeIds = {"n1", "n2", "n3", "n4", "n5", "n6"}
 LinkIds = {"l1", "l2", "l3", "l4", "l5"}
 OrigIds = {"o1", "o2", "r1", "r2"}
 RampIds = {"r1", "r2"}
 DestIds = {"d1", "d2", "d3"}
 NameOf <- TraceNameOf
 InvalImplicitNodes = TRUE
 DestNameWrite = FALSE
 PathEndChecked = TRUE
INIT Init
NEXT Next
CHECK_DEADLOCK FALSE

CONSTANTS
 NodeIds = {"n1", "n2", "n3", "n4"}
 LinkIds = {"l1", "l2", "l3"}
 OrigIds = {"o1", "r1", "i1"}
 RampIds = {"r1"}
 IdealIds = {"i1"}
 DestIds = {"d1", "c1"}
 CongIds = {"c1"}
 NameOf <- MCNameOf
 InvalTable <- NoTable
 InvalImplicitNodes = TRUE
 DestNameWrite = FALSE
 PathEndChecked = TRUE
 MaxDepth = 2
 Profile = "sess"
 EmitOn = FALSE
INIT Init
NEXT Next
VIEW View
CONSTRAINT Bound
ACTION_CONSTRAINT Step
CHECK_DEADLOCK FALSE

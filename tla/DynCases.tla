------------------------------ MODULE DynCases ------------------------------
(***************************************************************************)
(* Case generator for the dynamics layer: TLC enumerates                   *)
(*   (1) Mode = "shapes": every valid network shape (graph + origin kind + *)
(*       destination kind per node) with at most MaxNodes nodes and        *)
(*       MaxLinks links, up to node renumbering, using the validity        *)
(*       predicate of the specification (Metanet!ValidNet);                *)
(*   (2) Mode = "cases": for every shape (read back from SHAPES_FILE plus  *)
(*       a fixed list of larger patterns) x decoration variant x input     *)
(*       point, a fully decorated abstract case (parameters pairwise       *)
(*       distinct per slot; generic points from the seeded hash RUnif and  *)
(*       corner points where limits are active or values are exactly 0).   *)
(* Cases are emitted as JSON lines; the harness replays them into the real *)
(* library and TLC validates what it returned (Trace_Dyn.tla).             *)
(***************************************************************************)
EXTENDS Integers, Sequences, FiniteSets, TLC, Json, IOUtils, Metanet
LOCAL INSTANCE FiniteSetsExt

CONSTANTS Mode,        \* "shapes" | "cases"
          MaxNodes, MaxLinks,
          Seed, Variants, Generic, Corners,   \* per shape: Variants decorations x (Generic + Corners) points
          Family,      \* "base" | "opts" (64 option combinations, negative values) | "neg" (negative values, no option) | "neutral"
          Shard, NShards

-----------------------------------------------------------------------------
RECURSIVE SetToSeq(_)
SetToSeq(S) == IF S = {} THEN <<>> ELSE LET x == CHOOSE x \in S : TRUE IN <<x>> \o SetToSeq(S \ {x})

(* Stage 1: shapes *)
NoneK == "none"
Pairs(n) == (1..n) \X (1..n)
EdgeSets(n) == {E \in UNION {kSubset(k, Pairs(n)) : k \in 1..(IF MaxLinks < n * n THEN MaxLinks ELSE n * n)} :
                  \A a \in 1..n : \E e \in E : e[1] = a \/ e[2] = a}
InDeg(E, a) == Cardinality({e \in E : e[2] = a})
OutDeg(E, a) == Cardinality({e \in E : e[1] = a})
\* the (origin kind, destination kind) pairs a node may carry given its degrees (conditions 2-9)
Allowed(E, a) ==
  LET i == InDeg(E, a)  o == OutDeg(E, a)
  IN IF o = 0 THEN (IF i = 1 THEN {<<NoneK, "dest">>} ELSE {})
     ELSE IF i = 0 THEN (IF o = 1 THEN {<<k, NoneK>> : k \in {"ideal", "mainstream", "ramp"}} ELSE {})
     ELSE IF o = 1 THEN {<<NoneK, NoneK>>, <<"ramp", NoneK>>}
     ELSE {<<NoneK, NoneK>>}
RECURSIVE Decor(_, _)
Decor(E, a) == IF a = 0 THEN {<<>>} ELSE {Append(f, c) : f \in Decor(E, a - 1), c \in Allowed(E, a)}
\* shape-level kinds: the ramp variant ("ramp") and the destination law ("dest") are resolved by the decoration
OCode(k) == CASE k = NoneK -> 0 [] k = "ideal" -> 1 [] k = "mainstream" -> 2 [] OTHER -> 3
DCode(k) == CASE k = NoneK -> 0 [] OTHER -> 1
Key(E, f, a) == ((OutDeg(E, a) * 10 + InDeg(E, a)) * 10 + OCode(f[a][1])) * 10 + DCode(f[a][2])
\* cheap symmetry reduction: keep the renumberings whose node keys are non-decreasing
Sorted(n, E, f) == \A a \in 1..(n - 1) : Key(E, f, a) <= Key(E, f, a + 1)
ShapesOf(n) == {[n |-> n, edges |-> E, kinds |-> f] : <<E, f>> \in
                  UNION {{<<E, f>> : f \in {g \in Decor(E, n) : Sorted(n, E, g)}} : E \in EdgeSets(n)}}
AllShapes(dummy) == UNION {ShapesOf(n) : n \in 1..MaxNodes}   \* (a parameter: not evaluated eagerly at start-up in the other mode)
ShapeJson(s) ==
  [n |-> s.n, edges |-> SetToSeq(s.edges),
   orig |-> [a \in 1..s.n |-> s.kinds[a][1]], dest |-> [a \in 1..s.n |-> s.kinds[a][2]]]

\* larger patterns beyond the exhaustive bound: 2-in-2-out, ramp at a merge, ring with a ramp,
\* chain of three, self-loop, merge of three, bifurcation into three, two origins
ExtraShapes == <<
  [n |-> 5, edges |-> <<<<1, 3>>, <<2, 3>>, <<3, 4>>, <<3, 5>>>>, orig |-> <<"mainstream", "ramp_out", NoneK, NoneK, NoneK>>, dest |-> <<NoneK, NoneK, NoneK, "free", "congested">>],
  [n |-> 4, edges |-> <<<<1, 2>>, <<3, 2>>, <<2, 4>>>>, orig |-> <<"mainstream", "ramp_in", "ideal", NoneK>>, dest |-> <<NoneK, NoneK, NoneK, "free">>],
  [n |-> 3, edges |-> <<<<1, 2>>, <<2, 3>>, <<3, 1>>>>, orig |-> <<"ramp_out", NoneK, "simp_limited">>, dest |-> <<NoneK, NoneK, NoneK>>],
  [n |-> 4, edges |-> <<<<1, 2>>, <<2, 3>>, <<3, 4>>>>, orig |-> <<"mainstream", "ramp_out", "simp_limited", NoneK>>, dest |-> <<NoneK, NoneK, NoneK, "congested">>],
  [n |-> 3, edges |-> <<<<1, 2>>, <<2, 2>>, <<2, 3>>>>, orig |-> <<"ideal", NoneK, NoneK>>, dest |-> <<NoneK, NoneK, "free">>],
  [n |-> 5, edges |-> <<<<1, 4>>, <<2, 4>>, <<3, 4>>, <<4, 5>>>>, orig |-> <<"mainstream", "ramp_in", "simp_unlimited", "ramp_out", NoneK>>, dest |-> <<NoneK, NoneK, NoneK, NoneK, "free">>],
  [n |-> 5, edges |-> <<<<1, 2>>, <<2, 3>>, <<2, 4>>, <<2, 5>>>>, orig |-> <<"mainstream", NoneK, NoneK, NoneK, NoneK>>, dest |-> <<NoneK, NoneK, "free", "congested", "free">>],
  [n |-> 6, edges |-> <<<<1, 3>>, <<2, 3>>, <<3, 4>>, <<4, 5>>, <<4, 6>>, <<5, 3>>>>, orig |-> <<"ideal", "mainstream", NoneK, NoneK, "ramp_in", NoneK>>, dest |-> <<NoneK, NoneK, NoneK, NoneK, NoneK, "congested">>],
  \* two mainstream origins and a ramp at their merge; two ramps and a simplified ramp on a chain (same-named controls of different element types)
  [n |-> 4, edges |-> <<<<1, 3>>, <<2, 3>>, <<3, 4>>>>, orig |-> <<"mainstream", "mainstream", "ramp_out", NoneK>>, dest |-> <<NoneK, NoneK, NoneK, "congested">>],
  [n |-> 5, edges |-> <<<<1, 2>>, <<2, 3>>, <<3, 4>>, <<4, 5>>>>, orig |-> <<"ramp_out", "simp_limited", "ramp_in", "ramp_out", NoneK>>, dest |-> <<NoneK, NoneK, NoneK, NoneK, "congested">>],
  \* a long link (12 segments: two-digit segment indices) after a mainstream origin, a ramp, a second long link
  [n |-> 3, edges |-> <<<<1, 2>>, <<2, 3>>>>, orig |-> <<"mainstream", "ramp_out", NoneK>>, dest |-> <<NoneK, NoneK, "free">>, long |-> {1}],
  [n |-> 4, edges |-> <<<<1, 2>>, <<2, 3>>, <<2, 4>>>>, orig |-> <<"ideal", NoneK, NoneK, NoneK>>, dest |-> <<NoneK, NoneK, "congested", "free">>, long |-> {2}],
  \* four entering links at one node; five leaving links at one node
  [n |-> 6, edges |-> <<<<1, 5>>, <<2, 5>>, <<3, 5>>, <<4, 5>>, <<5, 6>>>>, orig |-> <<"mainstream", "ramp_out", "ideal", "simp_limited", "ramp_in", NoneK>>, dest |-> <<NoneK, NoneK, NoneK, NoneK, NoneK, "congested">>],
  [n |-> 7, edges |-> <<<<1, 2>>, <<2, 3>>, <<2, 4>>, <<2, 5>>, <<2, 6>>, <<2, 7>>>>, orig |-> <<"mainstream", NoneK, NoneK, NoneK, NoneK, NoneK, NoneK>>, dest |-> <<NoneK, NoneK, "free", "congested", "free", "congested", "free">>],
  \* two entering and three leaving links at one node
  [n |-> 6, edges |-> <<<<1, 3>>, <<2, 3>>, <<3, 4>>, <<3, 5>>, <<3, 6>>>>, orig |-> <<"mainstream", "ramp_in", NoneK, NoneK, NoneK, NoneK>>, dest |-> <<NoneK, NoneK, NoneK, "free", "congested", "free">>]
  >>

-----------------------------------------------------------------------------
(* Stage 2: decoration and points *)
Shapes == (IF IOEnv.SHAPES_FILE = "" THEN <<>> ELSE ndJsonDeserialize(IOEnv.SHAPES_FILE)) \o ExtraShapes

Tab(t, j) == t[((j - 1) % Len(t)) + 1]
LamT    == <<2, 3, 1, 4, 2, 3, 1>>
LenT    == <<"1", "0.75", "1.25", "0.5", "1.5", "0.875", "1.125">>
RhoMaxT == <<"180", "170", "190", "160", "175", "185", "165">>
RhoCritT == <<"33.5", "30", "36.25", "28", "38", "32", "35">>
VFreeT  == <<"102", "110", "95", "120", "105", "98", "115">>
\* (0.3: exp(-1/a) falls below the 0.05 floor of the mainstream speed ratio)
AT      == <<"1.867", "2", "1.5", "2.25", "1.375", "0.3", "1.75", "1.625">>
BetaT   == <<"1", "3", "0.5", "2", "1.5", "0.75", "2.5">>
PairBetaT == <<"1", "1", "2", "2", "0.5", "0.5", "3">>
CT      == <<"2000", "1500", "2500", "1200", "1800">>
RampSeq == <<"ramp_out", "ramp_in", "simp_limited", "simp_unlimited">>
DestSeq == <<"free", "congested">>
NodeId(a) == "N" \o ToString(a)
LinkId(j) == "L" \o ToString(j)
OrigId(a) == "O" \o ToString(a)
DestId(a) == "D" \o ToString(a)

\* 1..4 segments, spread by a hash of (shape, link, variant) so that every position of every shape sees every count
\* over the variants and shapes (a fixed pattern left e.g. "single-segment link just upstream of a ramp node" unvisited)
SegCount(E, j, k) == HashMod(<<"segments", E, j, k>>, 4) + 1
\* plain | speed-limited with no / first / last / all / the last two (not a prefix) / the outer (not contiguous) segments
VslOf(j, k, N) == LET c == (2 * j + 3 * k) % 7
                  IN CASE c = 0 -> [ctl |-> FALSE, vsl |-> {}] [] c = 1 -> [ctl |-> TRUE, vsl |-> {}]
                       [] c = 2 -> [ctl |-> TRUE, vsl |-> {1}] [] c = 3 -> [ctl |-> TRUE, vsl |-> {N}]
                       [] c = 4 -> [ctl |-> TRUE, vsl |-> 1..N]
                       [] c = 5 -> [ctl |-> TRUE, vsl |-> {i \in 1..N : i >= N - 1}]
                       [] OTHER -> [ctl |-> TRUE, vsl |-> IF N >= 9 THEN {2, 9} ELSE {1, N}]   \* sparse, with a two-digit 0-based neighbour

\* the decorated network of shape s under variant k (all parameters pairwise distinct per slot)
NetOf(s, k) ==
  LET E == s.edges
      \* integer exponent (2 or 3) so that negative densities stay defined; in the family "neutral" for odd variants only
      intA == Family \in {"opts", "neg"} \/ (Family = "neutral" /\ k % 2 = 1)
      \* decoration classes: 0 all parameters pairwise distinct per slot; 1 the usual case of a homogeneous motorway
      \* (same rho_max, rho_crit, v_free, a, L and default turn rates everywhere; lanes and segment counts still
      \* differ); 2 distinct parameters but turn rates equal in consecutive pairs
      cls == k % 3
      long == IF "long" \in DOMAIN s THEN s.long ELSE {}
  IN [links |-> [id \in {LinkId(j) : j \in DOMAIN E} |->
                   LET j == CHOOSE j \in DOMAIN E : LinkId(j) = id
                       \* (homogeneous class: every link the same number of segments as well, so that same-shaped variables abound)
                       N == IF j \in long THEN 12 ELSE SegCount(E, IF cls = 1 THEN 0 ELSE j, k)
                       c == IF j \in long /\ k % 2 = 0 THEN [ctl |-> TRUE, vsl |-> {2, 9}] ELSE VslOf(j, k, N)
                       u == IF cls = 1 THEN 1 ELSE j       \* table index: one shared slot for the homogeneous class
                       \* every table is entered at a rotation that depends on (shape, variant): consecutive slots keep the
                       \* parameters of one network distinct, and every shape position sees every table entry over the shapes
                       r(tag) == HashMod(<<tag, E, k>>, 56)
                   IN [up |-> NodeId(E[j][1]), down |-> NodeId(E[j][2]), N |-> N,
                       lam |-> RQ(Tab(LamT, j + r("lam")), 1), L |-> RParse(Tab(LenT, u + r("L"))),
                       rho_max |-> RParse(Tab(RhoMaxT, u + r("rho_max"))), rho_crit |-> RParse(Tab(RhoCritT, u + r("rho_crit"))),
                       v_free |-> RParse(Tab(VFreeT, u + r("v_free"))),
                       a |-> IF intA THEN RQ(2 + HashMod(<<"integer a", E, u, k>>, 2), 1) ELSE RParse(Tab(AT, u + r("a"))),
                       beta |-> CASE cls = 1 -> One [] cls = 2 -> RParse(Tab(PairBetaT, j)) [] OTHER -> RParse(Tab(BetaT, j + r("beta"))),
                       ctl |-> c.ctl, vsl |-> c.vsl,
                       \* non-compliance factor: usually 1/10, exactly zero on every third (link, variant) pair
                       alpha |-> IF c.ctl /\ (j + k) % 3 # 0 THEN RQ(1, 10) ELSE Zero]],
      origins |-> [id \in {OrigId(a) : a \in {a \in 1..s.n : s.orig[a] # NoneK}} |->
                   LET a == CHOOSE a \in 1..s.n : OrigId(a) = id
                   IN [node |-> NodeId(a), kind |-> IF s.orig[a] = "ramp" THEN Tab(RampSeq, a + HashMod(<<"ramp", E, k>>, 4)) ELSE s.orig[a],
                       C |-> RParse(Tab(CT, a + HashMod(<<"C", E, k>>, 5)))]],
      dests |-> [id \in {DestId(a) : a \in {a \in 1..s.n : s.dest[a] # NoneK}} |->
                   LET a == CHOOSE a \in 1..s.n : DestId(a) = id
                   IN [node |-> NodeId(a), kind |-> IF s.dest[a] = "dest" THEN Tab(DestSeq, a + HashMod(<<"dest", E, k>>, 2)) ELSE s.dest[a]]]]

\* model parameters: the usual ones, and (by the index i = variant + shape) relations that flip: tau < T (sampling
\* time above the time constant), small anticipation constant, weaker anticipation
ParOf(k, i) == [T |-> RQ(1, 360), tau |-> IF i % 3 = 2 THEN RQ(1, 500) ELSE RQ(1, 200),
                eta |-> IF i % 2 = 1 THEN RQ(35, 1) ELSE RQ(60, 1), kappa |-> IF i % 4 = 3 THEN RQ(13, 1) ELSE RQ(40, 1),
                delta |-> RParse("0.0122"), phi |-> RQ(2, 1),
                hasDelta |-> (k % 4) \in {0, 1}, hasPhi |-> (k % 4) \in {0, 2}]

OptsOf(c) == [pis |-> (c % 2) = 1, pid |-> ((c \div 2) % 2) = 1, piq |-> ((c \div 4) % 2) = 1,
              pns |-> ((c \div 8) % 2) = 1, pnd |-> ((c \div 16) % 2) = 1, pnq |-> ((c \div 32) % 2) = 1]

R(a, b) == <<RQ(a, 1), RQ(b, 1)>>
\* point kinds: 1..Generic generic; then corners by name
\* (ordered so that a small number of corners already switches the most branches)
CornerNames == <<"high_demand", "congested", "zero_v", "zero_rho", "zero_w", "rho_max", "rho_crit", "ctrl0", "ctrl1inf",
                 "free", "mixed_zero", "low_speed", "ctrl_mixed">>
PointKind(p) == IF p <= Generic THEN "generic"
                ELSE IF Family = "neutral" THEN Tab(<<"ctrl1inf", "ctrl_mixed", "neg_mixed", "congested", "free", "ctrl_mixed">>, p - Generic)
                ELSE Tab(CornerNames, p - Generic)

\* value of one input slot of net under point (key, kind)
SlotValue(net, key, kind, slot) ==
  LET U(lo, hi) == RUnif(<<key, slot>>, RQ(lo, 1), RQ(hi, 1))
      neg == Family \in {"opts", "neg"}
      coin == HashMod(<<key, slot, "coin">>, 3)
      t == slot[1]
      lk == IF t \in {"rho", "v", "vc"} THEN net.links[slot[2]] ELSE net.links[Pick(Links(net))]
      okind == IF t \in {"w", "uo", "do"} THEN net.origins[slot[2]].kind ELSE ""
      olk == IF t \in {"w", "uo", "do"} THEN net.links[OLink(net, slot[2])] ELSE lk
      isFirstOfOrigin == t = "rho" /\ slot[3] = 1 /\ OrigAt(net, lk.up) # {}
  IN CASE t = "rho" ->
            (CASE kind = "zero_rho" -> Zero
               [] kind = "rho_max" -> IF isFirstOfOrigin THEN lk.rho_max ELSE U(2, 110)
               [] kind = "rho_crit" -> lk.rho_crit
               [] kind = "congested" -> U(100, 150)
               [] kind = "free" -> U(1, 10)
               [] kind = "mixed_zero" -> IF coin = 0 THEN Zero ELSE U(2, 110)
               \* negative densities only where the exponent is an integer (the equilibrium speed is undefined otherwise)
               [] kind = "neg_mixed" -> IF lk.a \in {RQ(2, 1), RQ(3, 1)} THEN U(-30, 110) ELSE U(2, 110)
               [] OTHER -> IF neg THEN U(-30, 110) ELSE U(2, 110))
       [] t = "v" ->
            (CASE kind = "zero_v" -> Zero
               [] kind = "congested" -> U(0, 15)
               [] kind = "free" -> lk.v_free (-) U(0, 3)
               [] kind = "low_speed" -> U(0, 6)
               [] kind = "mixed_zero" -> IF coin = 1 THEN Zero ELSE U(5, 118)
               [] OTHER -> IF neg THEN U(-40, 118) ELSE U(5, 118))
       [] t = "w" ->
            (CASE kind \in {"zero_w", "mixed_zero"} -> Zero
               [] kind = "high_demand" -> U(300, 600)
               [] OTHER -> IF neg THEN U(-30, 60) ELSE U(0, 60))
       [] t = "do" ->
            (CASE kind = "zero_w" -> U(0, 300)
               [] kind = "high_demand" -> U(8000, 12000)
               [] kind = "mixed_zero" -> IF coin = 2 THEN Zero ELSE U(200, 3500)
               [] OTHER -> U(200, 3500))
       [] t = "uo" ->
            (CASE kind = "ctrl0" -> Zero
               [] kind = "ctrl1inf" -> IF okind \in {"ramp_in", "ramp_out"} THEN One
                                       ELSE IF okind = "simp_unlimited" THEN U(100, 2500) ELSE Inf
               [] kind = "low_speed" /\ okind = "mainstream" -> U(0, 6)
               [] okind \in {"ramp_in", "ramp_out"} -> RUnif(<<key, slot>>, Zero, One)
               [] okind = "mainstream" -> U(5, 130)
               [] OTHER -> U(100, 2500))
       [] t = "vc" ->
            (CASE kind = "ctrl0" -> Zero
               [] kind = "ctrl1inf" -> Inf
               [] kind \in {"ctrl_mixed", "neg_mixed"} -> IF coin = 0 THEN U(20, 120) ELSE Inf     \* some signs off (infinite), some on
               [] OTHER -> U(20, 120))
       [] t = "dd" ->
            (CASE kind = "mixed_zero" -> Zero
               [] OTHER -> U(5, 90))

PointOf(net, key, kind) ==
  LET V(s) == SlotValue(net, key, kind, s)
  IN [x |-> [rho |-> [l \in Links(net) |-> [i \in Segs(net, l) |-> V(<<"rho", l, i>>)]],
             v   |-> [l \in Links(net) |-> [i \in Segs(net, l) |-> V(<<"v", l, i>>)]],
             w   |-> [o \in Queued(net) |-> V(<<"w", o, 1>>)]],
      u |-> [vctrl |-> [l \in CtlLinks(net) |-> [j \in 1..Cardinality(net.links[l].vsl) |-> V(<<"vc", l, j>>)]],
             o |-> [o \in Queued(net) |-> V(<<"uo", o, 1>>)]],
      d |-> [o |-> [o \in Queued(net) |-> V(<<"do", o, 1>>)], dest |-> [q \in Congested(net) |-> V(<<"dd", q, 1>>)]]]

S(a) == RStr(a)
SSeq(s) == [i \in DOMAIN s |-> S(s[i])]
NetJson(net) ==
  [links |-> [l \in Links(net) |-> LET k == net.links[l] IN
      [up |-> k.up, down |-> k.down, N |-> k.N, lam |-> S(k.lam), L |-> S(k.L), rho_max |-> S(k.rho_max),
       rho_crit |-> S(k.rho_crit), v_free |-> S(k.v_free), a |-> S(k.a), beta |-> S(k.beta),
       ctl |-> k.ctl, vsl |-> SetToSeq(k.vsl), alpha |-> S(k.alpha)]],
   origins |-> [o \in Origins(net) |-> [node |-> net.origins[o].node, kind |-> net.origins[o].kind, C |-> S(net.origins[o].C)]],
   dests |-> [q \in Dests(net) |-> net.dests[q]]]
ParJson(par) == [T |-> S(par.T), tau |-> S(par.tau), eta |-> S(par.eta), kappa |-> S(par.kappa), delta |-> S(par.delta),
                 phi |-> S(par.phi), hasDelta |-> par.hasDelta, hasPhi |-> par.hasPhi]
PointJson(pt) ==
  [x |-> [rho |-> [l \in DOMAIN pt.x.rho |-> SSeq(pt.x.rho[l])], v |-> [l \in DOMAIN pt.x.v |-> SSeq(pt.x.v[l])],
          w |-> [o \in DOMAIN pt.x.w |-> S(pt.x.w[o])]],
   u |-> [vctrl |-> [l \in DOMAIN pt.u.vctrl |-> SSeq(pt.u.vctrl[l])], o |-> [o \in DOMAIN pt.u.o |-> S(pt.u.o[o])]],
   d |-> [o |-> [o \in DOMAIN pt.d.o |-> S(pt.d.o[o])], dest |-> [q \in DOMAIN pt.d.dest |-> S(pt.d.dest[q])]]]

\* C18: the uncontrolled twin of a case.  At the point kind "ctrl1inf" every control is neutral (speed limits
\* infinite, metering rates one, desired flows unbounded) and the twin swaps every controlled element for its
\* plain counterpart: the two must evolve identically.  At other points only the links are made plain:
\* finite limits may only lower next speeds, and leave everything else untouched.
TwinKind(k) == CASE k = "ramp_in" -> "ramp_out" [] k = "ramp_out" -> "ramp_in" [] k = "simp_limited" -> "ramp_out" [] OTHER -> k
TwinOf(net, pt, kind) ==
  LET neutral == kind = "ctrl1inf"
      tnet == [net EXCEPT !.links = [l \in DOMAIN net.links |-> [net.links[l] EXCEPT !.ctl = FALSE, !.vsl = {}, !.alpha = Zero]],
                          !.origins = [o \in DOMAIN net.origins |->
                                         IF neutral THEN [net.origins[o] EXCEPT !.kind = TwinKind(@)] ELSE net.origins[o]]]
      tu == [vctrl |-> [l \in {} |-> <<>>],
             o |-> [o \in Queued(net) |->
                      IF ~neutral THEN pt.u.o[o]
                      ELSE CASE net.origins[o].kind = "simp_limited" -> One
                             [] net.origins[o].kind = "mainstream" -> pt.x.v[OLink(net, o)][1]
                             [] OTHER -> pt.u.o[o]]]
  IN [net |-> NetJson(tnet), u |-> [vctrl |-> [l \in {} |-> <<>>], o |-> [o \in DOMAIN tu.o |-> S(tu.o[o])]],
      expect |-> IF neutral THEN "equal" ELSE "le"]

PointsPer == Generic + Corners
Total == Len(Shapes) * Variants * PointsPer
CaseAt(i) ==     \* i in 0..Total-1
  LET si == (i \div (Variants * PointsPer)) + 1
      k == (i \div PointsPer) % Variants
      p == (i % PointsPer) + 1
      net == NetOf(Shapes[si], k + Seed)
      kind == PointKind(p)
      key == <<Seed, si, k, p>>
      rawpt == PointOf(net, key, kind)
      pt == PointJson(rawpt)
      opts == IF Family = "opts" THEN OptsOf(HashMod(<<key, "opts">>, 64)) ELSE NoOpts
  IN [id |-> Family \o "-s" \o ToString(si) \o "-k" \o ToString(k) \o "-p" \o ToString(p), src |-> "tlc",
      shape |-> si, variant |-> k, point |-> kind,
      net |-> NetJson(net), par |-> ParJson(ParOf(k + Seed, k + Seed + si)), opts |-> opts, x |-> pt.x, u |-> pt.u, d |-> pt.d,
      valid_in_model |-> ValidNet(net),
      twin |-> IF Family = "neutral" THEN TwinOf(net, rawpt, kind) ELSE [expect |-> "none"]]

VARIABLE i
Init == i = 0
NextShapes == /\ i = 0
              /\ \A s \in AllShapes(i) : PrintT("SHAPE " \o ToJson(ShapeJson(s)))
              /\ i' = 1
NextCases == /\ i < Total
             /\ (i % NShards = Shard) => PrintT("CASE " \o ToJson(CaseAt(i)))
             /\ i' = i + 1
Next == IF Mode = "shapes" THEN NextShapes ELSE NextCases
=============================================================================

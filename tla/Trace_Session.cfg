CONSTANTS
 NodeIds = {"n1", "n2", "n3", "n4"}
 LinkIds = {"l1", "l2", "l3"}
 OrigIds = {"o1", "r1", "i1"}
 RampIds = {"r1"}
 IdealIds = {"i1"}
 DestIds = {"d1", "c1"}
 CongIds = {"c1"}
 NameOf <- TraceNameOf
 InvalTable <- NoTable
 InvalImplicitNodes = TRUE
 DestNameWrite = FALSE
 PathEndChecked = TRUE
INIT Init
NEXT Next
CHECK_DEADLOCK FALSE

CONSTANTS MaxDepth = 3
 EmitOn = FALSE
INIT Init
NEXT Next
VIEW View
CONSTRAINT Bound
ACTION_CONSTRAINT Emit
INVARIANT AutoNamesDistinct
CHECK_DEADLOCK FALSE

---------------------------- MODULE Trace_Session ----------------------------
(***************************************************************************)
(* Trace validation for user sessions (direction B of Session.tla): every  *)
(* line is one session recorded from the real library - construction       *)
(* calls, validations, whole / failing / per-element steps, compilations,  *)
(* far longer than the exhaustive bound - with the outcome of every call.  *)
(* TLC folds Session!SApply over the calls and compares; the verdict names *)
(* the first failing step and clause, and describes the network reached so *)
(* that the function compiled last can be validated numerically.           *)
(***************************************************************************)
EXTENDS Session, Json, IOUtils

File == ndJsonDeserialize(IOEnv.TRACE_FILE)
TraceNameOf == [x \in NodeIds \cup LinkIds \cup OrigIds \cup DestIds |-> x]
NoTable == <<>>

StepFails(T, c, a, o) ==
  (IF c[1] = "compile" /\ a.res[1] = "error" /\ o.kind # "error" THEN {"c19.unready_compiled"} ELSE {})
  \cup (IF c[1] = "compile" /\ a.res[1] = "error" /\ o.kind = "error" /\ ~o.runtime_error THEN {"c19.wrong_error_class"} ELSE {})
  \cup (IF c[1] = "compile" /\ a.res[1] = "function" /\ o.kind = "function" /\ o.free # 0 THEN {"c19.free_symbols"} ELSE {})
  \cup (IF c[1] = "compile" /\ a.res[1] = "function" /\ a.res[3] /\ o.kind = "error" THEN {"c07.whole_step_not_compiled"} ELSE {})
  \cup (IF c[1] = "net_step" /\ o.kind = "error" THEN {"c07.valid_network_not_stepped"} ELSE {})
  \cup (IF c[1] = "is_valid" /\ o.kind = "valid" /\ o.valid # a.res[2] THEN {"c06.verdict"} ELSE {})
  \cup (IF c[1] = "is_valid" /\ o.kind # "valid" THEN {"c06.raised"} ELSE {})
  \* anything else that differs in outcome class is outside the listed properties: the rest of the session is not judged
  \cup (IF c[1] \notin {"compile", "net_step", "is_valid"} /\ (a.res[1] = "error") # (o.kind = "error") THEN {"model.diverged"} ELSE {})
  \cup (IF c[1] = "compile" /\ a.res[1] = "function" /\ ~a.res[3] /\ o.kind = "error" THEN {"model.diverged"} ELSE {})

Reached(T) == [links |-> LinkIter(T.g), orig |-> [i \in DOMAIN OrigSeq(T.g) |-> <<OriginsNow(T.g)[i][2], OriginsNow(T.g)[i][1]>>],
               dest |-> [i \in DOMAIN DestSeq(T.g) |-> <<DestsNow(T.g)[i][2], DestsNow(T.g)[i][1]>>],
               numeric |-> Valid(T.g) /\ Ready(T) /\ Uniform(T) /\ LinksOf(T.g) # {}]
\* TLC keeps [x \in S |-> e] as an unevaluated lambda and re-evaluates it at every application: a chain of fifteen calls
\* nests them exponentially.  Comparing a value with itself converts (and caches) every function inside it.
Norm(T) == IF T = T THEN T ELSE T
RECURSIVE Walk(_, _, _, _)
Walk(tr, i, T, acc) ==
  IF i > Len(tr.calls) THEN [fails |-> acc, reached |-> Reached(T), judged |-> Len(tr.calls)]
  ELSE LET c == tr.calls[i]
       IN IF ~SEnabled(T, c) THEN [fails |-> acc \cup {<<i, "model.call_not_modelled">>}, reached |-> [Reached(T) EXCEPT !.numeric = FALSE], judged |-> i - 1]
          ELSE LET a == SApply(T, c)
                   f == StepFails(T, c, a, tr.obs[i])
               IN IF f # {} THEN [fails |-> acc \cup {<<i, x>> : x \in f}, reached |-> [Reached(T) EXCEPT !.numeric = FALSE], judged |-> i]
                  ELSE Walk(tr, i + 1, Norm(a.T), acc)

Verdict(tr) == LET w == Walk(tr, 1, SInit, {}) IN [id |-> tr.id, fails |-> w.fails, reached |-> w.reached, judged |-> w.judged]

VARIABLE l
Init == l = 1
Next == /\ l <= Len(File)
        /\ PrintT("VERDICT " \o ToJson(Verdict(File[l])))
        /\ l' = l + 1
=============================================================================

------------------------------- MODULE Session -------------------------------
(***************************************************************************)
(* The COMPOSITION of the construction layer (NetBuild) with the element   *)
(* lifecycle (initialise / step / compile) over ARBITRARY graphs: one      *)
(* session of a user who builds a network, validates it, steps it, keeps   *)
(* building, re-initialises single elements, and compiles at any point.    *)
(* Lifecycle.tla fixes the network and explores engines, parameters and    *)
(* caller-owned values; this module fixes one engine kind and explores the *)
(* graph.  One public call = one pure function SApply(T, call).            *)
(*                                                                         *)
(* State T:                                                                *)
(*   g     : the NetBuild state (graph, attachments, memoised lookups)     *)
(*   vars  : [element -> BOOLEAN]  the element's variables exist           *)
(*   nxt   : [element -> [has, deps, stale, at]]  its next states: built   *)
(*           from the variables of which elements (deps), whether one of   *)
(*           those has been re-created since (stale), and the graph they   *)
(*           were built on (at)                                            *)
(*   tried : [element -> BOOLEAN]  a step of the element was attempted and *)
(*           FAILED (no effect in the model; it keeps apart states that an *)
(*           implementation could tell apart)                              *)
(*   whole : the last lifecycle call was a successful whole-network step   *)
(*           and nothing has been touched since                            *)
(* Elements keep their variables and next states while they are not part   *)
(* of the network (an element replaced on its edge / node is still an      *)
(* object the caller holds and may attach again).                          *)
(***************************************************************************)
EXTENDS NetBuild

CONSTANTS IdealIds,     \* \subseteq OrigIds \ RampIds : origins without variables (the ideal origin)
          CongIds       \* \subseteq DestIds : destinations with a disturbance (congested); the others have no variables

ElemIds == LinkIds \cup OrigIds \cup DestIds
Declaring == LinkIds \cup (OrigIds \ IdealIds) \cup CongIds     \* elements that declare states, actions or disturbances
Stateful == LinkIds \cup (OrigIds \ IdealIds)                    \* elements with states
NoNext == [has |-> FALSE, deps |-> {}, stale |-> FALSE, at |-> <<>>]

SInit == [g |-> EmptyState, vars |-> [e \in ElemIds |-> FALSE], nxt |-> [e \in ElemIds |-> NoNext],
          tried |-> [e \in ElemIds |-> FALSE], whole |-> FALSE]

LinksOf(g) == {g.link[e] : e \in Range(g.edges)}
InNet(g) == LinksOf(g) \cup {g.orig[n] : n \in DOMAIN g.orig} \cup {g.dest[n] : n \in DOMAIN g.dest}
\* net.elements: links as net.links iterates them, then origins, then destinations (attachment order by node order)
LinkSeq(g) == [i \in DOMAIN LinkIter(g) |-> LinkIter(g)[i][3]]
OrigSeq(g) == Keys(OriginsNow(g))
DestSeq(g) == Keys(DestsNow(g))
ElemOrder(g) == LinkSeq(g) \o OrigSeq(g) \o DestSeq(g)

LinksInto(g, n) == {g.link[e] : e \in {e \in Range(g.edges) : e[2] = n}}
LinksFrom(g, n) == {g.link[e] : e \in {e \in Range(g.edges) : e[1] = n}}
At(f, n) == IF n \in DOMAIN f THEN {f[n]} ELSE {}
\* The elements whose VARIABLES the step of x reads (Metanet!Deps lifted to elements), on a valid graph:
\*  a link reads its own state, the links entering its upstream node and the origin there (inflow, upstream speed,
\*  merging term), the links leaving its downstream node and the destination there (downstream density);
\*  an origin reads its own state and the first segment of the link it feeds.
Deps(g, x) ==
  IF x \in LinkIds
  THEN LET e == CHOOSE e \in Range(g.edges) : g.link[e] = x
       IN ({x} \cup LinksInto(g, e[1]) \cup At(g.orig, e[1]) \cup LinksFrom(g, e[2]) \cup At(g.dest, e[2])) \cap Declaring
  ELSE LET n == CHOOSE n \in DOMAIN g.orig : g.orig[n] = x IN ({x} \cup LinksFrom(g, n)) \cap Declaring

\* (re)creating the variables of e makes every next state built from them stale
InitEl(T, e) ==
  IF e \notin Declaring THEN T ELSE
  [T EXCEPT !.vars[e] = TRUE,
            !.nxt = [x \in ElemIds |-> IF T.nxt[x].has /\ e \in T.nxt[x].deps THEN [T.nxt[x] EXCEPT !.stale = TRUE] ELSE T.nxt[x]]]
StepEl(T, e) == [T EXCEPT !.nxt[e] = [has |-> TRUE, deps |-> Deps(T.g, e), stale |-> FALSE, at |-> GraphOf(T.g)]]
RECURSIVE InitSeq(_, _)
InitSeq(T, es) == IF es = <<>> THEN T ELSE InitSeq(InitEl(T, Head(es)), Tail(es))
RECURSIVE StepSeq(_, _)
StepSeq(T, es) == IF es = <<>> THEN T ELSE StepSeq(StepEl(T, Head(es)), Tail(es))
StatefulOrigins(g) == SelectSeq(OrigSeq(g), LAMBDA o : o \in Stateful)
\* Network.step: initialise every element, step the origins that have states, then the links
NetStep(T) == StepSeq(InitSeq(T, ElemOrder(T.g)), StatefulOrigins(T.g) \o LinkSeq(T.g))

\* readiness of to_function (C19), evaluated on the CURRENT network
Uninitialised(T) == {e \in InNet(T.g) \cap Declaring : ~T.vars[e]}
Unstepped(T) == {e \in InNet(T.g) \cap Stateful : ~T.nxt[e].has}
\* a next state is stale when one of the elements it was built from has been re-initialised since, or is no longer part
\* of the network (its symbols are not arguments of the function: they would be free)
Stale(T) == {e \in InNet(T.g) \cap Stateful : T.nxt[e].has /\ (T.nxt[e].stale \/ ~(T.nxt[e].deps \subseteq InNet(T.g)))}
Ready(T) == Uninitialised(T) = {} /\ Unstepped(T) = {} /\ Stale(T) = {}
\* every next state was built on the present graph: the function is then StepOpt of the present network
Uniform(T) == \A e \in InNet(T.g) \cap Stateful : T.nxt[e].has => T.nxt[e].at = GraphOf(T.g)

IsConstruction(c) == c[1] \in {"add_node", "add_nodes", "add_link", "add_links", "add_origin", "add_destination", "add_path"}
\* stepping is only specified on networks that validation accepts (C07); compiling and initialising on any
SEnabled(T, c) ==
  CASE c[1] \in {"net_step", "net_step_partial", "net_step_late_fail"} -> Valid(T.g) /\ LinksOf(T.g) # {}
    [] c[1] = "step" -> Valid(T.g) /\ c[2] \in InNet(T.g) \cap Stateful
    [] c[1] = "init" -> c[2] \in InNet(T.g)
    [] OTHER -> TRUE

SApply(T, c) ==
  LET op == c[1]
  IN CASE IsConstruction(c) \/ op \in {"read", "is_valid"} ->
            LET a == Apply(T.g, c) IN [T |-> [T EXCEPT !.g = a.S, !.whole = IF IsConstruction(c) THEN FALSE ELSE @], res |-> a.res]
       [] op = "net_step" -> [T |-> [NetStep(T) EXCEPT !.whole = TRUE], res |-> <<"ok">>]
       \* a whole-network step given the sampling time only: every element is initialised, the origins are stepped (they
       \* need nothing else), the first link fails; the caller catches the error and carries on
       [] op = "net_step_partial" ->
            [T |-> [StepSeq(InitSeq(T, ElemOrder(T.g)), StatefulOrigins(T.g)) EXCEPT !.whole = FALSE, !.tried[LinkSeq(T.g)[1]] = TRUE],
             res |-> <<"error", "any">>]
       \* a whole-network step that fails at the LAST link (the caller supplied a state of the wrong size for it): everything
       \* is initialised, the origins and all other links are stepped
       [] op = "net_step_late_fail" ->
            LET ls == LinkSeq(T.g)
            IN [T |-> [StepSeq(InitSeq(T, ElemOrder(T.g)), StatefulOrigins(T.g) \o SubSeq(ls, 1, Len(ls) - 1))
                         EXCEPT !.whole = FALSE, !.tried[ls[Len(ls)]] = TRUE,
                                \* the last link is left with the caller's unusable state: it has to be initialised again
                                !.vars[ls[Len(ls)]] = FALSE],
                res |-> <<"error", "any">>]
       [] op = "init" -> [T |-> [InitEl(T, c[2]) EXCEPT !.whole = FALSE], res |-> <<"ok">>]
       [] op = "init_all" -> [T |-> [InitSeq(T, ElemOrder(T.g)) EXCEPT !.whole = FALSE], res |-> <<"ok">>]
       [] op = "step" ->
            IF ~T.vars[c[2]] THEN [T |-> [T EXCEPT !.tried[c[2]] = TRUE, !.whole = FALSE], res |-> <<"error", "AssertionError">>]
            ELSE IF \E d \in Deps(T.g, c[2]) : ~T.vars[d] THEN [T |-> [T EXCEPT !.tried[c[2]] = TRUE, !.whole = FALSE], res |-> <<"error", "any">>]
            ELSE [T |-> [StepEl(T, c[2]) EXCEPT !.whole = FALSE], res |-> <<"ok">>]
       [] op = "compile" ->
            [T |-> T, res |-> IF Ready(T) THEN <<"function", Uniform(T), T.whole>> ELSE <<"error", "RuntimeError">>]

-----------------------------------------------------------------------------
(* Properties (asserted on every generated transition) *)
\* C19: a function is produced exactly for a fully initialised and stepped network whose next states were built
\* from the network's current variables
ReadyIff(T, c, res) == c[1] = "compile" => ((res[1] = "function") <=> Ready(T))
\* C19 / C07: a valid network stepped as a whole is ready, whatever happened before
StepMakesReady(c, U) == c[1] = "net_step" => (Ready(U) /\ Uniform(U))
\* C19: an element with variables that enters the network without having been initialised makes it unready
NewElementUnreadies(T, c, U) ==
  IsConstruction(c) => \A e \in (InNet(U.g) \ InNet(T.g)) \cap Declaring : ~T.vars[e] => ~Ready(U)
\* C19: so does an element with states that enters without having been stepped
NewStatefulUnreadies(T, c, U) ==
  IsConstruction(c) => \A e \in (InNet(U.g) \ InNet(T.g)) \cap Stateful : ~T.nxt[e].has => ~Ready(U)
\* C19: replacing an element whose variables the next state of a remaining element was built from makes the network unready
ReplacementUnreadies(T, c, U) ==
  IsConstruction(c) => \A e \in (InNet(T.g) \ InNet(U.g)) \cap Declaring :
                         (\E x \in InNet(U.g) \cap Stateful : U.nxt[x].has /\ e \in U.nxt[x].deps) => ~Ready(U)
\* C19: re-initialising a stepped element, or failing half-way through a step, leaves an unready network
TouchUnreadies(T, c, U) == (c[1] = "init" /\ c[2] \in Stateful /\ T.nxt[c[2]].has) => ~Ready(U)
PartialStepUnreadies(c, U) == c[1] \in {"net_step_partial", "net_step_late_fail"} => ~Ready(U)
\* a failed step of an element changes nothing but the record that it was tried
FailedStepIsNoStep(T, c, U, res) == (c[1] = "step" /\ res[1] = "error") => (U.nxt = T.nxt /\ U.vars = T.vars)
\* readiness never depends on what is memoised, nor on elements outside the network
ReadyIsLocal(T) == LET Clean == [T EXCEPT !.g.cache = [k \in Lookups |-> Absent]] IN Ready(Clean) = Ready(T)
\* C06 in every session state: the verdict of validation is a function of the graph alone
ValidIsStructural(T, c, res) == c[1] = "is_valid" => (res[2] <=> Violated(T.g) = {})
=============================================================================

------------------------------- MODULE SeqUtil -------------------------------
(* Efficient set -> sequence (the CommunityModules' Java implementation), wrapped so that the other
   operators of SequencesExt (and the bag operators (+), (-) it drags in) stay out of scope. *)
LOCAL INSTANCE SequencesExt
ToSeq(S) == SetToSeq(S)
=============================================================================

CONSTANTS
 NodeIds = {"n1", "n2", "n3"}
 LinkIds = {"l1", "l2"}
 OrigIds = {"o1", "r1"}
 RampIds = {"r1"}
 DestIds = {"d1", "d2"}
 InvalTable <- MCInvalTable
 UseImplTable = FALSE
 InvAddNode = {}
 InvAddNodes = {}
 InvAddLink = {}
 InvAddLinks = {}
 InvAddOrigin = {}
 InvAddDestination = {}
 NameOf <- MCNameOf
 InvalImplicitNodes = FALSE
 DestNameWrite = TRUE
 PathEndChecked = FALSE
 MaxDepth = 2
 Profile = "cache"
 MaxPath = 3
 EmitOn = FALSE
INIT Init
NEXT Next
VIEW View
CONSTRAINT Bound
ACTION_CONSTRAINT Step
INVARIANT InvCacheCoherent
INVARIANT InvOnlyNodes
INVARIANT InvWellTyped
CHECK_DEADLOCK FALSE

CONSTANTS Mode = "cases"
 MaxNodes = 3
 MaxLinks = 3
 Seed = 0
 Variants = 1
 Generic = 2
 Corners = 12
 Family = "base"
 Shard = 0
 NShards = 1
INIT Init
NEXT Next
CHECK_DEADLOCK FALSE

----------------------------- MODULE MC_Session -----------------------------
(* Bounded instances of Session: from the empty network and from a few networks built by a call prefix, every
   interleaving of construction calls, validation, whole-network steps (complete and failing half-way), per-element
   initialisation / steps and compilations up to MaxDepth further calls.  The properties are asserted on every
   generated transition; transitions whose last call is a lifecycle call are printed for replay into the library. *)
EXTENDS Session, Json

CONSTANTS MaxDepth, Profile, EmitOn

MCNameOf == [x \in NodeIds \cup LinkIds \cup OrigIds \cup DestIds |-> x]
NoTable == <<>>

VARIABLES T, res, hist, depth
vars == <<T, res, hist, depth>>
View == IF Profile = "hist" THEN <<T, hist>> ELSE <<T, <<>>>>

Seeds == << <<>>,
            << <<"add_path", <<"n1", "l1", "n2">>, "o1", "d1">> >>,
            << <<"add_path", <<"n1", "l1", "n2", "l2", "n3">>, "o1", "c1">>, <<"add_origin", "r1", "n2">> >>,
            << <<"add_path", <<"n1", "l1", "n2">>, "i1", "d1">>, <<"add_link", "n2", "l2", "n1">> >>,
            << <<"add_links", << <<"n1", "l1", "n2">>, <<"n2", "l2", "n3">>, <<"n3", "l3", "n1">> >> >> >>,
            << <<"add_path", <<"n1", "l1", "n2", "l3", "n3">>, "o1", "d1">>, <<"add_path", <<"n2", "l2", "n4">>, "", "c1">> >> >>
RECURSIVE FoldS(_, _)
FoldS(U, cs) == IF cs = <<>> THEN U ELSE FoldS(SApply(U, Head(cs)).T, Tail(cs))

Pairs == {<<"n1", "n2">>, <<"n2", "n3">>, <<"n1", "n3">>, <<"n2", "n1">>}
BuildCalls == {<<"add_link", p[1], l, p[2]>> : p \in Pairs, l \in LinkIds}
              \cup {<<"add_origin", o, n>> : o \in OrigIds, n \in {"n1", "n2"}}
              \cup {<<"add_destination", d, n>> : d \in DestIds, n \in {"n2", "n3"}}
LifeCalls == {<<"net_step">>, <<"net_step_partial">>, <<"net_step_late_fail">>, <<"compile">>, <<"init_all">>, <<"is_valid">>}
             \cup {<<"init", e>> : e \in {"l1", "l2", "o1", "r1", "c1"}}
             \cup {<<"step", e>> : e \in {"l1", "l2", "o1", "r1"}}
\* profile "sess": everything; profile "hist": a few calls, no two histories merged
HistCalls == {<<"net_step">>, <<"net_step_partial">>, <<"net_step_late_fail">>, <<"compile">>, <<"init_all">>, <<"step", "l1">>, <<"step", "o1">>,
              <<"add_link", "n1", "l2", "n2">>, <<"add_origin", "r1", "n1">>, <<"add_destination", "c1", "n2">>}
Calls == IF Profile = "hist" THEN HistCalls ELSE BuildCalls \cup LifeCalls

Init == /\ res = <<"init">> /\ depth = 0
        /\ \E i \in DOMAIN Seeds : hist = Seeds[i] /\ T = FoldS(SInit, Seeds[i])
Next == \E c \in Calls :
          /\ SEnabled(T, c)
          \* (the replay makes the last link fail through a state of the wrong size, which needs a link of >= 2 segments)
          /\ c[1] = "net_step_late_fail" => LinkSeq(T.g)[Len(LinkSeq(T.g))] \in {"l1", "l2"}
          /\ LET a == SApply(T, c) IN T' = a.T /\ res' = a.res
          /\ hist' = Append(hist, c)
          /\ depth' = depth + 1
Bound == depth <= MaxDepth

Check ==
  LET c == hist'[Len(hist')]
  IN /\ Assert(ReadyIff(T, c, res'), <<"C19 ReadyIff", hist'>>)
     /\ Assert(StepMakesReady(c, T'), <<"C19 StepMakesReady", hist'>>)
     /\ Assert(NewElementUnreadies(T, c, T'), <<"C19 NewElementUnreadies", hist'>>)
     /\ Assert(NewStatefulUnreadies(T, c, T'), <<"C19 NewStatefulUnreadies", hist'>>)
     /\ Assert(ReplacementUnreadies(T, c, T'), <<"C19 ReplacementUnreadies", hist'>>)
     /\ Assert(TouchUnreadies(T, c, T'), <<"C19 TouchUnreadies", hist'>>)
     /\ Assert(PartialStepUnreadies(c, T'), <<"C19 PartialStepUnreadies", hist'>>)
     /\ Assert(FailedStepIsNoStep(T, c, T', res'), <<"FailedStepIsNoStep", hist'>>)
     /\ Assert(ReadyIsLocal(T'), <<"ReadyIsLocal", hist'>>)
     /\ Assert(ValidIsStructural(T, c, res'), <<"C06 ValidIsStructural", hist'>>)
     /\ Assert(OnlyNodes(T'.g) /\ CacheCoherent(T'.g), <<"C08/C09 in session", hist'>>)
Emit == (EmitOn /\ depth' <= MaxDepth /\ ~IsConstruction(hist'[Len(hist')]) /\ hist'[Len(hist')][1] # "init") =>
          PrintT("TRANS " \o ToJson(
            [h |-> hist', res |-> res',
             links |-> LinkIter(T'.g), orig |-> [i \in DOMAIN OrigSeq(T'.g) |-> <<OriginsNow(T'.g)[i][2], OriginsNow(T'.g)[i][1]>>],
             dest |-> [i \in DOMAIN DestSeq(T'.g) |-> <<DestsNow(T'.g)[i][2], DestsNow(T'.g)[i][1]>>],
             valid |-> Valid(T'.g), elements |-> ElemOrder(T'.g),
             vars |-> [e \in InNet(T'.g) \cap Declaring |-> T'.vars[e]],
             nxt |-> [e \in InNet(T'.g) \cap Stateful |-> T'.nxt[e].has],
             tried |-> {e \in ElemIds : T'.tried[e]}, ready |-> Ready(T'), uniform |-> Uniform(T'),
             why |-> [uninit |-> Uninitialised(T'), unstepped |-> Unstepped(T'), stale |-> Stale(T')]]))
Step == Check /\ Emit
=============================================================================

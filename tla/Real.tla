-------------------------------- MODULE Real --------------------------------
(***************************************************************************)
(* Exact extended rationals for the METANET specification.                 *)
(*                                                                         *)
(* TLC has 32-bit integers and no reals, METANET needs rationals with big  *)
(* numerators and three transcendental functions.  A number is a pair      *)
(* <<num, den>> of LIMB TUPLES <<sign, l0, l1, ...>> (base 10^9, least     *)
(* significant limb first), in normal form (gcd = 1, den >= 0).  den = 0   *)
(* encodes +inf = 1/0, -inf = -1/0 and the absorbing undefined value       *)
(* NaN = 0/0 (the model's own 0/0 at a merge with zero inflow ...).        *)
(*                                                                         *)
(* The definitions below state the MEANING of every operator over TLA+'s   *)
(* unbounded integers.  TLC evaluates them through the operator overrides  *)
(* in Real.java (java.math.BigInteger), which Real_selftest.tla checks     *)
(* against these meanings on small values.  Exp, Ln and Pow are computed   *)
(* by StrictMath on the nearest double (relative error about 2^-52); the   *)
(* double result is then taken as the exact rational it denotes.           *)
(***************************************************************************)
LOCAL INSTANCE Integers
LOCAL INSTANCE Sequences

Base == 1000000000

RECURSIVE LimbAbs(_, _)
LimbAbs(t, i) == IF i > Len(t) THEN 0 ELSE t[i] + Base * LimbAbs(t, i + 1)
LimbVal(t) == t[1] * LimbAbs(t, 2)          \* integer denoted by a limb tuple
Num(a) == LimbVal(a[1])
Den(a) == LimbVal(a[2])

IsNaNV(a) == Num(a) = 0 /\ Den(a) = 0
IsInfV(a) == Num(a) # 0 /\ Den(a) = 0

(* The operators.  Each body is the defining property of the result `c`;   *)
(* `Norm` picks the unique normal-form representative.  (TLC never         *)
(* evaluates these bodies: see Real.java.)                                 *)
Norm(n, d) == CHOOSE c \in Seq(Seq(Int)) \X Seq(Seq(Int)) :
                 /\ Den(c) >= 0
                 /\ Num(c) * d = n * Den(c)
                 /\ \A k \in 2..Den(c) : ~(Num(c) % k = 0 /\ Den(c) % k = 0)

RQ(n, d)     == Norm(n, d)                                   \* the rational n/d of two TLC integers
RParse(s)    == CHOOSE c \in Seq(Seq(Int)) \X Seq(Seq(Int)) : TRUE   \* "n/d" | decimal | "inf" | "-inf" | "nan"
RStr(a)      == CHOOSE s \in STRING : RParse(s) = a           \* "num/den"
RDbl(a)      == CHOOSE s \in STRING : TRUE                    \* decimal string of the nearest double
RAdd(a, b)   == Norm(Num(a) * Den(b) + Num(b) * Den(a), Den(a) * Den(b))    \* inf + -inf = NaN
RNeg(a)      == Norm(0 - Num(a), Den(a))
RSub(a, b)   == RAdd(a, RNeg(b))
RMul(a, b)   == Norm(Num(a) * Num(b), Den(a) * Den(b))                      \* inf * 0 = NaN
RDiv(a, b)   == Norm(Num(a) * Den(b), Den(a) * Num(b))                      \* x/0 = +-inf, 0/0 = NaN
RAbs(a)      == IF Num(a) < 0 THEN RNeg(a) ELSE a
RLt(a, b)    == ~IsNaNV(a) /\ ~IsNaNV(b) /\ Num(a) * Den(b) < Num(b) * Den(a)   \* (finite case)
RLe(a, b)    == ~IsNaNV(a) /\ ~IsNaNV(b) /\ Num(a) * Den(b) <= Num(b) * Den(a)
RMin(a, b)   == IF IsNaNV(a) \/ IsNaNV(b) THEN Norm(0, 0) ELSE IF RLe(a, b) THEN a ELSE b
RMax(a, b)   == IF IsNaNV(a) \/ IsNaNV(b) THEN Norm(0, 0) ELSE IF RLe(b, a) THEN a ELSE b
RIsNaN(a)    == IsNaNV(a)
RIsFinite(a) == Den(a) # 0
RSign(a)     == IF Num(a) > 0 THEN 1 ELSE IF Num(a) < 0 THEN -1 ELSE 0
RExp(a)      == CHOOSE c \in Seq(Seq(Int)) \X Seq(Seq(Int)) : TRUE   \* e^a     (double precision)
RLn(a)       == CHOOSE c \in Seq(Seq(Int)) \X Seq(Seq(Int)) : TRUE   \* ln a    (double precision; NaN for a < 0)
RPow(a, b)   == CHOOSE c \in Seq(Seq(Int)) \X Seq(Seq(Int)) : TRUE   \* a^b     (double precision; NaN for a < 0, b non-integer)
\* |a - b| <= tol * max(1, |a|, |b|, scale); infinities only equal themselves; NaN is close to nothing
RClose(a, b, tol, scale) == CHOOSE x \in BOOLEAN : TRUE
\* an unspecified but fixed function into [lo, hi] (a 20-bit hash of key): generic points
RUnif(key, lo, hi) == CHOOSE c \in Seq(Seq(Int)) \X Seq(Seq(Int)) : RLe(lo, c) /\ RLe(c, hi)
\* an unspecified but fixed function into 0..n-1
HashMod(key, n) == CHOOSE k \in 0..(n - 1) : TRUE

a (+) b == RAdd(a, b)
a (-) b == RSub(a, b)
a (.) b == RMul(a, b)
a (/) b == RDiv(a, b)

Zero   == RQ(0, 1)
One    == RQ(1, 1)
Inf    == RQ(1, 0)
NaN    == RQ(0, 0)
=============================================================================

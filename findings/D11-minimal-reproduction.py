import sys, itertools
import numpy as np, casadi as cs
import sym_metanet as sm
from sym_metanet.engines.casadi import Engine
def build(names, ramp, order):
    n=[sm.Node(name=f"N{i}") for i in range(4)]
    la=sm.Link(1, 3, 0.9, 190.0, 33.0, 101.0, 1.29, name=names[0])
    lb=sm.Link(1, 1, 0.55, 197.0, 30.0, 113.0, 1.21, name=names[1])
    lc=sm.Link(3, 1, 0.57, 184.0, 34.0, 118.0, 1.22, name=names[2])
    net=sm.Network()
    steps=[lambda: net.add_link(n[2], lc, n[3]), lambda: net.add_link(n[0], la, n[2]), lambda: net.add_link(n[1], lb, n[2])]
    for i in order: steps[i]()
    net.add_origin(sm.Origin(name="Oa"), n[0]); net.add_origin(sm.MainstreamOrigin(name="Ob"), n[1]); net.add_destination(sm.Destination(name="D"), n[3])
    if ramp: net.add_origin(sm.SimplifiedMeteredOnRamp(1300.0, "unlimited", name="Or"), n[2])
    return net
for ramp in (False, True):
  for order in itertools.permutations(range(3)):
    for sym in ("SX","MX"):
        res=[]
        for names in (("La","Lb","Lc"),("L","L","L")):
            net=build(names, ramp, order); eng=Engine(sym)
            kw=dict(T=10/3600, tau=18/3600, eta=60.0, kappa=40.0, delta=0.0122)
            net.step(engine=eng, **kw)
            F=eng.to_function(net, compact=0, **kw)
            rng=np.random.default_rng(1)
            args=[rng.uniform(5,90,size=(F.size1_in(i),1)) for i in range(F.n_in())]
            out=F(*args)
            res.append(np.concatenate([np.asarray(o).ravel() for o in out]))
        print(ramp, order, sym, "max diff", np.abs(res[0]-res[1]).max())

import itertools
def count(n,m,okinds=('none','ideal','main','ramp'),dkinds=('none','free','cong')):
    pairs=[(u,v) for u in range(n) for v in range(n)]
    seen=set(); total=0
    for k in range(1,m+1):
        for E in itertools.combinations(pairs,k):
            used=set(x for e in E for x in e)
            if used!=set(range(n)): continue   # all nodes connected to a link (cond 3)
            indeg=[sum(1 for e in E if e[1]==u) for u in range(n)]
            outdeg=[sum(1 for e in E if e[0]==u) for u in range(n)]
            opts=[]
            for u in range(n):
                o=[]
                for ok in okinds:
                    for dk in dkinds:
                        if ok!='none' and dk!='none': continue
                        if indeg[u]==0 and ok=='none': continue
                        if outdeg[u]==0 and dk=='none': continue
                        if ok in('ideal','main') and indeg[u]>0: continue
                        if ok!='none' and outdeg[u]>1: continue
                        if dk!='none' and (indeg[u]>1 or outdeg[u]>0): continue
                        o.append((ok,dk))
                opts.append(o)
            for assign in itertools.product(*opts):
                # canonical form under node perms
                best=None
                for p in itertools.permutations(range(n)):
                    key=(tuple(sorted((p[a],p[b]) for a,b in E)),tuple(assign[p.index(i)] for i in range(n)))
                    if best is None or key<best: best=key
                if best not in seen: seen.add(best)
                total+=1
    return total,len(seen)
for n,m in [(1,1),(2,2),(2,3),(3,3),(3,4),(4,4),(4,5)]:
    print(n,m,count(n,m))

---- MODULE NB ----
EXTENDS Integers, Sequences, FiniteSets, TLC
CONSTANTS Nodes, LinkObjs, Origs, Dests, MaxDepth
Lookups == {"nodes_by_name","links","in_links","links_by_name","nodes_by_link","origins","origins_by_name","origins_by_node","destinations","destinations_by_name","destinations_by_node"}
None == "none"
VARIABLES nodeSeq, succ, link, orig, dest, cache
vars == <<nodeSeq, succ, link, orig, dest, cache>>
NodeSet == {nodeSeq[i] : i \in 1..Len(nodeSeq)}
\* value of each lookup as a function of the graph (abstract: enough to distinguish staleness)
Recompute(k) ==
  CASE k = "nodes_by_name" -> NodeSet
    [] k \in {"links","in_links"} -> {}     \* live views
    [] k \in {"links_by_name","nodes_by_link"} -> {<<e, link[e]>> : e \in DOMAIN link}
    [] k \in {"origins","origins_by_name","origins_by_node"} -> {<<n, orig[n]>> : n \in DOMAIN orig}
    [] OTHER -> {<<n, dest[n]>> : n \in DOMAIN dest}
Absent == [has |-> FALSE, val |-> {}]
Has(x) == [has |-> TRUE, val |-> x]
Init == nodeSeq = <<>> /\ succ = <<>> /\ link = <<>> /\ orig = <<>> /\ dest = <<>> /\ cache = [k \in Lookups |-> Absent]
Ensure(seq, n) == IF n \in {seq[i] : i \in 1..Len(seq)} THEN seq ELSE Append(seq, n)
Drop(ks) == [k \in Lookups |-> IF k \in ks THEN Absent ELSE cache[k]]
AddNode(n) == /\ nodeSeq' = Ensure(nodeSeq, n) /\ cache' = Drop({"nodes_by_name"}) /\ UNCHANGED <<succ, link, orig, dest>>
AddLink(u, l, v) == /\ nodeSeq' = Ensure(Ensure(nodeSeq, u), v)
                    /\ link' = [e \in DOMAIN link \cup {<<u,v>>} |-> IF e = <<u,v>> THEN l ELSE link[e]]
                    /\ cache' = Drop({"links_by_name","nodes_by_link"}) /\ UNCHANGED <<succ, orig, dest>>
AddOrigin(o, n) == /\ nodeSeq' = Ensure(nodeSeq, n) /\ orig' = [m \in DOMAIN orig \cup {n} |-> IF m = n THEN o ELSE orig[m]]
                   /\ cache' = Drop({"origins","origins_by_name","origins_by_node"}) /\ UNCHANGED <<succ, link, dest>>
AddDest(d, n) == /\ nodeSeq' = Ensure(nodeSeq, n) /\ dest' = [m \in DOMAIN dest \cup {n} |-> IF m = n THEN d ELSE dest[m]]
                 /\ cache' = [k \in Lookups |-> IF k \in {"destinations","destinations_by_name"} THEN Has(Recompute(k)') ELSE IF k = "destinations_by_node" THEN Absent ELSE cache[k]]
                 /\ UNCHANGED <<succ, link, orig>>
Reads(k) == CASE k = "links_by_name" -> {"links","links_by_name"} [] k = "nodes_by_link" -> {"links","nodes_by_link"}
              [] k = "origins_by_name" -> {"origins","origins_by_name"} [] k = "origins_by_node" -> {"origins","origins_by_node"}
              [] k = "destinations_by_name" -> {"destinations","destinations_by_name"} [] k = "destinations_by_node" -> {"destinations","destinations_by_node"}
              [] OTHER -> {k}
Read(k) == /\ cache' = [j \in Lookups |-> IF j \in Reads(k) /\ ~cache[j].has THEN Has(Recompute(j)) ELSE cache[j]]
           /\ UNCHANGED <<nodeSeq, succ, link, orig, dest>>
Next == \/ \E n \in Nodes : AddNode(n)
        \/ \E u, v \in Nodes, l \in LinkObjs : AddLink(u, l, v)
        \/ \E o \in Origs, n \in Nodes : AddOrigin(o, n)
        \/ \E d \in Dests, n \in Nodes : AddDest(d, n)
        \/ \E k \in Lookups : Read(k)
Bound == TLCGet("level") <= MaxDepth
Coherent == \A k \in Lookups : cache[k].has => cache[k].val = Recompute(k)
====

import sys, random; sys.path.insert(0,sys.argv[1])
from sym_metanet import *
from sym_metanet.views import LINKENTRY,ORIGINENTRY,DESTINATIONENTRY
from sym_metanet.errors import InvalidNetworkError
rnd=random.Random(int(sys.argv[2])); ITER=int(sys.argv[3])
def recompute(net):
    G=net.graph; r={}
    r['nodes_by_name']={n.name:n for n in G.nodes}
    edges=[(u,v,d[LINKENTRY]) for u,v,d in G.edges(data=True)]
    r['links_by_name']={l.name:l for _,_,l in edges}
    r['nodes_by_link']={l:(u,v) for u,v,l in edges}
    r['origins']={d[ORIGINENTRY]:n for n,d in G.nodes(data=True) if ORIGINENTRY in d}
    r['origins_by_name']={o.name:o for o in r['origins']}
    r['origins_by_node']={n:o for o,n in r['origins'].items()}
    r['destinations']={d[DESTINATIONENTRY]:n for n,d in G.nodes(data=True) if DESTINATIONENTRY in d}
    r['destinations_by_name']={o.name:o for o in r['destinations']}
    r['destinations_by_node']={n:o for o,n in r['destinations'].items()}
    return r
def valid_ref(net):
    G=net.graph
    edges=[(u,v,d[LINKENTRY]) for u,v,d in G.edges(data=True)]
    objs=[l for _,_,l in edges]+[d[k] for n,d in G.nodes(data=True) for k in (ORIGINENTRY,DESTINATIONENTRY) if k in d]
    if len(set(map(id,objs)))!=len(objs): return False
    for n,d in G.nodes(data=True):
        ni,no=G.in_degree(n),G.out_degree(n)
        ho,hd=ORIGINENTRY in d,DESTINATIONENTRY in d
        if ho and hd: return False
        if ni==0 and no==0: return False
        if ni==0 and not ho: return False
        if no==0 and not hd: return False
        if ho and not isinstance(d[ORIGINENTRY],MeteredOnRamp) and ni>0: return False
        if ho and no>1: return False
        if hd and ni>1: return False
        if hd and no>0: return False
    return True
bad={}
def note(k,info):
    if k not in bad: bad[k]=info
for it in range(ITER):
    nodes=[Node(f'n{i}') for i in range(3)]; links=[Link(1,1,1,180,30,100,1.8,name=f'l{i}') for i in range(3)]
    origs=[Origin(name='o0'),MeteredOnRamp(1000,name='o1'),MainstreamOrigin(name='o2')]; dests=[Destination(name='d0'),CongestedDestination(name='d1')]
    net=Network(); hist=[]
    for step in range(rnd.randint(1,9)):
        c=rnd.choice(['node','nodes','link','links','origin','dest','path','read','read','valid'])
        try:
            if c=='node': a=rnd.choice(nodes); hist.append(('add_node',a.name)); net.add_node(a)
            elif c=='nodes': a=rnd.sample(nodes,rnd.randint(0,3)); hist.append(('add_nodes',[x.name for x in a])); net.add_nodes(a)
            elif c=='link': u,l,v=rnd.choice(nodes),rnd.choice(links),rnd.choice(nodes); hist.append(('add_link',u.name,l.name,v.name)); net.add_link(u,l,v)
            elif c=='links': a=[(rnd.choice(nodes),rnd.choice(links),rnd.choice(nodes)) for _ in range(rnd.randint(0,2))]; hist.append(('add_links',[(u.name,l.name,v.name) for u,l,v in a])); net.add_links(a)
            elif c=='origin': o,n=rnd.choice(origs),rnd.choice(nodes); hist.append(('add_origin',o.name,n.name)); net.add_origin(o,n)
            elif c=='dest': o,n=rnd.choice(dests),rnd.choice(nodes); hist.append(('add_destination',o.name,n.name)); net.add_destination(o,n)
            elif c=='path':
                p=[rnd.choice(nodes+links) if rnd.random()<0.25 else (nodes+nodes)[rnd.randrange(3)] if i%2==0 else rnd.choice(links) for i in range(rnd.randint(0,5))]
                o=rnd.choice(origs+[None]*3); d=rnd.choice(dests+[None]*2); hist.append(('add_path',[x.name for x in p],o and o.name,d and d.name))
                wellformed=len(p)>=3 and len(p)%2==1 and all(isinstance(x,Node) if i%2==0 else isinstance(x,Link) for i,x in enumerate(p))
                try:
                    net.add_path(p,o,d)
                    if not wellformed: note('malformed path accepted',list(hist))
                except BaseException as e:
                    if wellformed: note('wellformed path rejected '+type(e).__name__,list(hist))
            elif c=='read':
                k=rnd.choice(['nodes_by_name','links_by_name','nodes_by_link','origins','origins_by_name','origins_by_node','destinations','destinations_by_name','destinations_by_node'])
                hist.append(('read',k)); got=getattr(net,k); exp=recompute(net)[k]
                if dict(got)!=exp: note('stale '+k,list(hist))
            else:
                hist.append(('is_valid',)); ok,msgs=net.is_valid(); ref=valid_ref(net)
                if ok!=ref: note(f'is_valid={ok} ref={ref}',(list(hist),msgs))
                if not ok and not msgs: note('invalid without message',list(hist))
                try: net.is_valid(raises=True); raised=False
                except InvalidNetworkError: raised=True
                if raised==ok: note('raise mismatch',list(hist))
        except BaseException as e:
            note('EXC '+type(e).__name__+' '+str(e)[:60],list(hist))
        if any(not isinstance(n,Node) for n in net.graph.nodes): note('non-node in graph',list(hist))
    # final full compare
    rc=recompute(net)
    for k,v in rc.items():
        if dict(getattr(net,k))!=v: note('final stale '+k,list(hist))
for k,v in bad.items(): print(k,'::',v)
print('done',ITER,'distinct problems',len(bad))

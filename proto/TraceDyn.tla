---- MODULE TraceDyn ----
EXTENDS Integers, Sequences, FiniteSets, TLC, Json, IOUtils, Metanet
Trace == ndJsonDeserialize("/tmp/proto/dyn/trace.ndjson")
P(s) == RParse(s)
PSeq(s) == [i \in 1..Len(s) |-> P(s[i])]
Net(r) == [links |-> [l \in DOMAIN r.net.links |-> LET k == r.net.links[l] IN
             [up |-> k.up, down |-> k.down, N |-> k.N, lam |-> P(k.lam), L |-> P(k.L), rho_max |-> P(k.rho_max),
              rho_crit |-> P(k.rho_crit), v_free |-> P(k.v_free), a |-> P(k.a), beta |-> P(k.beta),
              vsl |-> {k.vsl[i] : i \in 1..Len(k.vsl)}, alpha |-> P(k.alpha)]],
           origins |-> [o \in DOMAIN r.net.origins |-> [node |-> r.net.origins[o].node, kind |-> r.net.origins[o].kind, C |-> P(r.net.origins[o].C)]],
           dests |-> r.net.dests]
Par(r) == [T |-> P(r.par.T), tau |-> P(r.par.tau), eta |-> P(r.par.eta), kappa |-> P(r.par.kappa), delta |-> P(r.par.delta), phi |-> P(r.par.phi),
           hasDelta |-> r.par.hasDelta, hasPhi |-> r.par.hasPhi]
X(r) == [rho |-> [l \in DOMAIN r.x.rho |-> PSeq(r.x.rho[l])], v |-> [l \in DOMAIN r.x.v |-> PSeq(r.x.v[l])], w |-> [o \in DOMAIN r.x.w |-> P(r.x.w[o])]]
U(r) == [vctrl |-> [l \in DOMAIN r.u.vctrl |-> PSeq(r.u.vctrl[l])], o |-> [o \in DOMAIN r.u.o |-> P(r.u.o[o])]]
D(r) == [o |-> [o \in DOMAIN r.d.o |-> P(r.d.o[o])], dest |-> [k \in DOMAIN r.d.dest |-> P(r.d.dest[k])]]
Tol == RQ(1, 1000000000)
VARIABLE l, bad
Check(r) ==
  LET net == Net(r) par == Par(r) x == X(r) u == U(r) d == D(r)
      y == Step(net, par, x, u, d)
      fails == {<<"rho", k, i>> : k \in DOMAIN y.rho, i \in 1..3}
      failsr == {t \in fails : t[3] <= Len(y.rho[t[2]]) /\ ~RClose(y.rho[t[2]][t[3]], P(r.y.rho[t[2]][t[3]]), Tol)}
      cv == {<<"v", k, i>> : k \in DOMAIN y.v, i \in 1..3}
      failsv == {t \in cv : t[3] <= Len(y.v[t[2]]) /\ ~RClose(y.v[t[2]][t[3]], P(r.y.v[t[2]][t[3]]), Tol)}
      cw == {<<"w", o, 1>> : o \in DOMAIN y.w}
      failsw == {t \in cw : ~RClose(y.w[t[2]], P(r.y.w[t[2]]), Tol)}
      cons == (Vehicles(net, y) (-) Vehicles(net, x)) = Balance(net, par, x, u, d)
  IN failsr \cup failsv \cup failsw \cup (IF cons THEN {} ELSE {<<"conservation", "", 0>>})
Init == l = 1 /\ bad = {}
Next == l <= Len(Trace) /\ l' = l + 1 /\ bad' = bad \cup {<<l, f>> : f \in Check(Trace[l])}
Accepted == TLCGet("stats").diameter - 1 = Len(Trace)
NoBad == bad = {}
====

---- MODULE Real ----
(* Extended exact rationals. Prototype: all operators are evaluated by Real.class. *)
LOCAL INSTANCE Integers
LOCAL INSTANCE Sequences
RQ(n, d) == CHOOSE x \in {} : TRUE
RParse(s) == CHOOSE x \in {} : TRUE
RAdd(a, b) == CHOOSE x \in {} : TRUE
RSub(a, b) == CHOOSE x \in {} : TRUE
RMul(a, b) == CHOOSE x \in {} : TRUE
RDiv(a, b) == CHOOSE x \in {} : TRUE
RLt(a, b) == CHOOSE x \in BOOLEAN : TRUE
RLe(a, b) == CHOOSE x \in BOOLEAN : TRUE
RMin(a, b) == CHOOSE x \in {} : TRUE
RMax(a, b) == CHOOSE x \in {} : TRUE
RExp(a) == CHOOSE x \in {} : TRUE
RLn(a) == CHOOSE x \in {} : TRUE
RPow(a, b) == CHOOSE x \in {} : TRUE
RStr(a) == CHOOSE x \in {} : TRUE
RClose(a, b, tol) == CHOOSE x \in BOOLEAN : TRUE
a (+) b == RAdd(a, b)
a (-) b == RSub(a, b)
a (.) b == RMul(a, b)
a (/) b == RDiv(a, b)
====

import tlc2.value.impl.*;
import java.math.BigInteger;
import java.math.BigDecimal;
import java.math.MathContext;
import java.util.ArrayList;
public class Real {
  static final BigInteger BASE = BigInteger.valueOf(1000000000L);
  static BigInteger fromLimbs(Value v) {
    TupleValue t = (TupleValue) v.toTuple();
    int sgn = ((IntValue) t.elems[0]).val;
    BigInteger r = BigInteger.ZERO;
    for (int i = t.elems.length - 1; i >= 1; i--) r = r.multiply(BASE).add(BigInteger.valueOf(((IntValue) t.elems[i]).val));
    return sgn < 0 ? r.negate() : r;
  }
  static Value toLimbs(BigInteger b) {
    int sgn = b.signum(); b = b.abs();
    ArrayList<Value> l = new ArrayList<>();
    l.add(IntValue.gen(sgn));
    while (b.signum() > 0) { BigInteger[] qr = b.divideAndRemainder(BASE); l.add(IntValue.gen(qr[1].intValue())); b = qr[0]; }
    return new TupleValue(l.toArray(new Value[0]));
  }
  static BigInteger[] get(Value v) { TupleValue t = (TupleValue) v.toTuple(); return new BigInteger[]{fromLimbs(t.elems[0]), fromLimbs(t.elems[1])}; }
  static Value mk(BigInteger n, BigInteger d) {
    if (d.signum() == 0) { n = BigInteger.valueOf(n.signum()); }
    else { if (d.signum() < 0) { n = n.negate(); d = d.negate(); } BigInteger g = n.gcd(d); if (g.signum() > 0) { n = n.divide(g); d = d.divide(g); } }
    return new TupleValue(new Value[]{toLimbs(n), toLimbs(d)});
  }
  static double toDouble(BigInteger[] x) { if (x[1].signum()==0) return x[0].signum()>0?Double.POSITIVE_INFINITY:(x[0].signum()<0?Double.NEGATIVE_INFINITY:Double.NaN); return new BigDecimal(x[0]).divide(new BigDecimal(x[1]), MathContext.DECIMAL128).doubleValue(); }
  static Value fromDouble(double v) { if (Double.isNaN(v)) return mk(BigInteger.ZERO, BigInteger.ZERO); if (Double.isInfinite(v)) return mk(BigInteger.valueOf(v>0?1:-1), BigInteger.ZERO);
    BigDecimal e = new BigDecimal(v); BigInteger den = BigInteger.TEN.pow(Math.max(0, e.scale())); return mk(e.movePointRight(Math.max(0,e.scale())).toBigIntegerExact(), den); }
  public static Value RQ(Value n, Value d) { return mk(BigInteger.valueOf(((IntValue) n).val), BigInteger.valueOf(((IntValue) d).val)); }
  public static Value RParse(Value s) { String[] p = ((StringValue) s).val.toString().split("/"); return mk(new BigInteger(p[0]), p.length>1? new BigInteger(p[1]) : BigInteger.ONE); }
  public static Value RAdd(Value a, Value b) { BigInteger[] x = get(a), y = get(b);
    if (x[1].signum()==0 || y[1].signum()==0) { double r = toDouble(x)+toDouble(y); return fromDouble(r); }
    return mk(x[0].multiply(y[1]).add(y[0].multiply(x[1])), x[1].multiply(y[1])); }
  public static Value RSub(Value a, Value b) { BigInteger[] y = get(b); return RAdd(a, mk(y[0].negate(), y[1])); }
  public static Value RMul(Value a, Value b) { BigInteger[] x = get(a), y = get(b); return mk(x[0].multiply(y[0]), x[1].multiply(y[1])); }
  public static Value RDiv(Value a, Value b) { BigInteger[] x = get(a), y = get(b); return mk(x[0].multiply(y[1]), x[1].multiply(y[0])); }
  static int cmp(Value a, Value b) { BigInteger[] x = get(a), y = get(b); if (x[1].signum()==0||y[1].signum()==0) return Double.compare(toDouble(x), toDouble(y)); return x[0].multiply(y[1]).compareTo(y[0].multiply(x[1])); }
  public static Value RLt(Value a, Value b) { return cmp(a,b) < 0 ? BoolValue.ValTrue : BoolValue.ValFalse; }
  public static Value RLe(Value a, Value b) { return cmp(a,b) <= 0 ? BoolValue.ValTrue : BoolValue.ValFalse; }
  public static Value RMin(Value a, Value b) { return cmp(a,b) <= 0 ? a : b; }
  public static Value RMax(Value a, Value b) { return cmp(a,b) >= 0 ? a : b; }
  public static Value RExp(Value a) { return fromDouble(StrictMath.exp(toDouble(get(a)))); }
  public static Value RLn(Value a) { return fromDouble(StrictMath.log(toDouble(get(a)))); }
  public static Value RPow(Value a, Value b) { return fromDouble(StrictMath.pow(toDouble(get(a)), toDouble(get(b)))); }
  public static Value RStr(Value a) { BigInteger[] x = get(a); return new StringValue(x[0].toString()+"/"+x[1].toString()); }
  public static Value RClose(Value a, Value b, Value tol) { // |a-b| <= tol*max(1,|a|,|b|)
    BigInteger[] x = get(a), y = get(b), t = get(tol);
    if (x[1].signum()==0||y[1].signum()==0) return (x[0].equals(y[0]) && x[1].equals(y[1]) && x[0].signum()!=0) ? BoolValue.ValTrue : BoolValue.ValFalse;
    BigInteger dn = x[0].multiply(y[1]).subtract(y[0].multiply(x[1])).abs(), dd = x[1].multiply(y[1]);
    // scale = max(1,|a|,|b|)
    BigInteger[] s = {BigInteger.ONE, BigInteger.ONE};
    BigInteger[] ax = {x[0].abs(), x[1]}, ay = {y[0].abs(), y[1]};
    if (ax[0].multiply(s[1]).compareTo(s[0].multiply(ax[1]))>0) s = ax;
    if (ay[0].multiply(s[1]).compareTo(s[0].multiply(ay[1]))>0) s = ay;
    return dn.multiply(t[1]).multiply(s[1]).compareTo(t[0].multiply(s[0]).multiply(dd)) <= 0 ? BoolValue.ValTrue : BoolValue.ValFalse; }
}

CONSTANTS Nodes = {n1, n2, n3}
 LinkObjs = {l1, l2}
 Origs = {o1, o2}
 Dests = {d1}
 MaxDepth = 4
INIT Init
NEXT Next
CONSTRAINT Bound
CHECK_DEADLOCK FALSE
INVARIANT Coherent

INIT Init
NEXT Next
INVARIANT NoBad
POSTCONDITION Accepted
CHECK_DEADLOCK FALSE

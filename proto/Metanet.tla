---- MODULE Metanet ----
(* Prototype of the METANET one-step model over exact extended rationals. *)
EXTENDS Integers, Sequences, FiniteSets, Real
LOCAL INSTANCE Folds

Zero == RQ(0,1)
One  == RQ(1,1)

\* net: [links : [LinkId -> [up, down, N, lam, L, rho_max, rho_crit, v_free, a, beta, vsl, alpha]],
\*       origins : [OrigId -> [node, kind, C]], dests : [DestId -> [node, kind]]]
\* x:   [rho : [LinkId -> Seq(Real)], v : [LinkId -> Seq(Real)], w : [OrigId -> Real]]
\* u:   [vctrl : [LinkId -> Seq(Real)] (one per vsl segment, in increasing segment order),
\*       o : [OrigId -> Real]]   (r, q or v_ctrl depending on kind)
\* d:   [o : [OrigId -> Real], dest : [DestId -> Real]]
\* par: [T, tau, eta, kappa, delta, phi, hasDelta, hasPhi]

Links(net) == DOMAIN net.links
In(net, n)  == {l \in Links(net) : net.links[l].down = n}
Out(net, n) == {l \in Links(net) : net.links[l].up = n}
OrigAt(net, n) == {o \in DOMAIN net.origins : net.origins[o].node = n}
DestAt(net, n) == {d \in DOMAIN net.dests : net.dests[d].node = n}
IsRamp(k) == k \in {"ramp_in", "ramp_out", "simp_limited", "simp_unlimited"}

Sum(S, f(_)) == MapThenFoldSet(LAMBDA a, b : a (+) b, Zero, f, LAMBDA T : CHOOSE t \in T : TRUE, S)

\* (3.1)
Flow(net, x, l, i) == (x.rho[l][i] (.) x.v[l][i]) (.) net.links[l].lam
LastFlow(net, x, l) == Flow(net, x, l, net.links[l].N)

\* (3.4)
Veq(lk, rho) == lk.v_free (.) RExp((Zero (-) (One (/) lk.a)) (.) RPow(rho (/) lk.rho_crit, lk.a))

\* the link leaving an origin's node (unique by validity)
OLink(net, o) == CHOOSE l \in Links(net) : net.links[l].up = net.origins[o].node

Term3(lk, rho1) == (lk.rho_max (-) rho1) (/) (lk.rho_max (-) lk.rho_crit)

OriginFlow(net, par, x, u, d, o) ==
  LET og == net.origins[o]  l == OLink(net, o)  lk == net.links[l]
      dem == d.o[o] (+) (x.w[o] (/) par.T)
  IN CASE og.kind = "ideal" -> Flow(net, x, l, 1)
     [] og.kind = "ramp_in" -> RMin(dem, og.C (.) RMin(u.o[o], Term3(lk, x.rho[l][1])))
     [] og.kind = "ramp_out" -> u.o[o] (.) RMin(dem, og.C (.) RMin(One, Term3(lk, x.rho[l][1])))
     [] og.kind = "simp_unlimited" -> u.o[o]
     [] og.kind = "simp_limited" -> RMin(u.o[o], RMin(dem, og.C (.) RMin(One, Term3(lk, x.rho[l][1]))))
     [] og.kind = "mainstream" ->
          LET Vcrit == Veq(lk, lk.rho_crit)
              vlim == RMin(u.o[o], x.v[l][1])
              ratio == RMax(RQ(1,20), RMin(One, vlim (/) lk.v_free))   \* named deviation: RatioGuard
              qspeed == ((lk.lam (.) vlim) (.) lk.rho_crit) (.) RPow((Zero (-) lk.a) (.) RLn(ratio), One (/) lk.a)
              qcap == (lk.lam (.) Vcrit) (.) lk.rho_crit
          IN RMin(dem, IF RLt(vlim, Vcrit) THEN qspeed ELSE qcap)

NodeOriginFlow(net, par, x, u, d, n) == Sum(OrigAt(net, n), LAMBDA o : OriginFlow(net, par, x, u, d, o))

\* section 3.2.2: q_{m,0} = beta_m / sum(beta) * (sum of entering last flows + origin flow)
UpFlow(net, par, x, u, d, l) ==
  LET n == net.links[l].up
      Q == Sum(In(net, n), LAMBDA m : LastFlow(net, x, m)) (+) NodeOriginFlow(net, par, x, u, d, n)
  IN (net.links[l].beta (/) Sum(Out(net, n), LAMBDA m : net.links[m].beta)) (.) Q

\* (3.10); origin boundary: v_{m,0} = v_{m,1}
UpSpeed(net, x, l) ==
  LET n == net.links[l].up  I == In(net, n)
  IN IF I = {} THEN x.v[l][1]
     ELSE IF Cardinality(I) = 1 THEN LET m == CHOOSE m \in I : TRUE IN x.v[m][net.links[m].N]
     ELSE Sum(I, LAMBDA m : x.v[m][net.links[m].N] (.) LastFlow(net, x, m)) (/) Sum(I, LAMBDA m : LastFlow(net, x, m))

\* (3.9) over first segments; destination laws
DownDensity(net, x, d, l) ==
  LET n == net.links[l].down  lk == net.links[l]  O == Out(net, n)  D == DestAt(net, n)
  IN IF D # {} THEN
       LET dd == CHOOSE dd \in D : TRUE
           free == RMin(x.rho[l][lk.N], lk.rho_crit)
       IN IF net.dests[dd].kind = "free" THEN free ELSE RMax(free, d.dest[dd])
     ELSE IF Cardinality(O) = 1 THEN LET m == CHOOSE m \in O : TRUE IN x.rho[m][1]
     ELSE Sum(O, LAMBDA m : x.rho[m][1] (.) x.rho[m][1]) (/) Sum(O, LAMBDA m : x.rho[m][1])

VslIndex(lk, i) == Cardinality({j \in lk.vsl : j <= i})
VeqEff(lk, x, u, l, i) ==
  IF i \in lk.vsl THEN RMin(Veq(lk, x.rho[l][i]), (One (+) lk.alpha) (.) u.vctrl[l][VslIndex(lk, i)])
  ELSE Veq(lk, x.rho[l][i])

RampAt(net, n) == {o \in OrigAt(net, n) : IsRamp(net.origins[o].kind)}
MergingApplies(net, par, l) == par.hasDelta /\ RampAt(net, net.links[l].up) # {} /\ In(net, net.links[l].up) # {}
LaneDrop(net, par, l) ==
  LET O == Out(net, net.links[l].down)
  IN IF par.hasPhi /\ Cardinality(O) = 1
     THEN net.links[l].lam (-) net.links[CHOOSE m \in O : TRUE].lam ELSE Zero

NextRho(net, par, x, u, d, l, i) ==
  LET lk == net.links[l]
      qup == IF i = 1 THEN UpFlow(net, par, x, u, d, l) ELSE Flow(net, x, l, i - 1)
  IN x.rho[l][i] (+) (((par.T (/) lk.lam) (/) lk.L) (.) (qup (-) Flow(net, x, l, i)))

NextV(net, par, x, u, d, l, i) ==
  LET lk == net.links[l]  vi == x.v[l][i]  ri == x.rho[l][i]
      vup == IF i = 1 THEN UpSpeed(net, x, l) ELSE x.v[l][i - 1]
      rdn == IF i = lk.N THEN DownDensity(net, x, d, l) ELSE x.rho[l][i + 1]
      relax == (par.T (/) par.tau) (.) (VeqEff(lk, x, u, l, i) (-) vi)
      conv == ((par.T (.) vi) (/) lk.L) (.) (vup (-) vi)
      antic == (((par.eta (.) par.T) (/) par.tau) (.) (rdn (-) ri)) (/) (lk.L (.) (ri (+) par.kappa))
      merge == IF i = 1 /\ MergingApplies(net, par, l)
               THEN (((par.delta (.) par.T) (.) NodeOriginFlow(net, par, x, u, d, lk.up)) (.) vi) (/) ((lk.L (.) lk.lam) (.) (ri (+) par.kappa))
               ELSE Zero
      drop == IF i = lk.N /\ LaneDrop(net, par, l) # Zero
              THEN ((((par.phi (.) par.T) (.) LaneDrop(net, par, l)) (.) ri) (.) (vi (.) vi)) (/) ((lk.L (.) lk.lam) (.) lk.rho_crit)
              ELSE Zero
  IN ((((vi (+) relax) (+) conv) (-) antic) (-) merge) (-) drop

NextW(net, par, x, u, d, o) == x.w[o] (+) (par.T (.) (d.o[o] (-) OriginFlow(net, par, x, u, d, o)))

Queued(net) == {o \in DOMAIN net.origins : net.origins[o].kind # "ideal"}

Step(net, par, x, u, d) ==
  [rho |-> [l \in Links(net) |-> [i \in 1..net.links[l].N |-> NextRho(net, par, x, u, d, l, i)]],
   v   |-> [l \in Links(net) |-> [i \in 1..net.links[l].N |-> NextV(net, par, x, u, d, l, i)]],
   w   |-> [o \in Queued(net) |-> NextW(net, par, x, u, d, o)]]

\* C02: network-wide conservation (exact)
Vehicles(net, x) == Sum(Links(net), LAMBDA l : Sum(1..net.links[l].N, LAMBDA i : (x.rho[l][i] (.) net.links[l].lam) (.) net.links[l].L))
                    (+) Sum(Queued(net), LAMBDA o : x.w[o])
Balance(net, par, x, u, d) ==
  par.T (.) ((Sum(Queued(net), LAMBDA o : d.o[o])
              (+) Sum(DOMAIN net.origins \ Queued(net), LAMBDA o : OriginFlow(net, par, x, u, d, o)))
             (-) Sum({l \in Links(net) : DestAt(net, net.links[l].down) # {}}, LAMBDA l : LastFlow(net, x, l)))
====

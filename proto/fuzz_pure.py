import sys; sys.path.insert(0,'/tmp/scratch/repo')
import numpy as np, copy, warnings
exec(open('/tmp/scratch/recgen.py').read().split("recs=[]; fails=0")[0].replace("seed=int(sys.argv[1]); count=int(sys.argv[2]); out=sys.argv[3]; engine_kind=sys.argv[4] if len(sys.argv)>4 else 'numpy'","seed=5"))
problems=set()
for k in range(300):
    n,E,orig,dest=rand_net(); net,links,origins,dests=build(n,E,orig,dest)
    par=dict(T=10/3600,tau=18/3600,eta=60.,kappa=40.,delta=0.01,phi=1.0)
    ic={}
    for nm,(L,p,_,_) in links.items():
        ic[L]={'rho':rng.uniform(-5,100,p['N']),'v':rng.uniform(-5,118,p['N'])}
        if isinstance(L,LinkWithVsl): ic[L]['v_ctrl']=rng.uniform(20,120,len(p['vsl']))
    for nm,(O,_,kind,C) in origins.items():
        if kind=='ideal': continue
        ic[O]={'w':rng.uniform(-5,80,1),'d':rng.uniform(100,3000,1)}
        ic[O][UNAME[kind]]={'v_ctrl':rng.uniform(3,130,1),'r':rng.uniform(0,1,1),'q':rng.uniform(50,2500,1)}[UNAME[kind]]
    for nm,(D,_,kind) in dests.items():
        if kind=='congested': ic[D]={'d':rng.uniform(5,80,1)}
    opts={f'positive_{a}_{b}':bool(rng.random()<0.5) for a in ('init','next') for b in ('speed','density','queue')}
    snap={el:{kk:vv.copy() for kk,vv in e.items()} for el,e in ic.items()}
    pars_snap={nm:dict((s,getattr(L,s)) for s in ('N','lam','L','rho_max','rho_crit','v_free','a','turnrate')) for nm,(L,_,_,_) in links.items()}
    def run():
        with warnings.catch_warnings():
            warnings.simplefilter('ignore')
            net.step(engine=NE(),init_conditions=ic,**par,**opts)
        return {el.name:{kk:np.array(vv).copy() for kk,vv in ns.items()} for el,ns in net.next_states.items()}
    try:
        a=run()
        for el,e in ic.items():
            if set(e)!=set(snap[el]): problems.add('dict keys changed')
            for kk in e:
                if not np.array_equal(e[kk],snap[el][kk]): problems.add(f'caller array mutated {type(el).__name__}.{kk}')
        b=run()
        # interleave a casadi step then numpy again
        if not any(isinstance(L,LinkWithVsl) and p['N']==1 and not p['vsl'] for L,p,_,_ in links.values()):
            net.step(engine=CE('SX'),**par)
        c=run()
        for x,y in ((a,b),(a,c)):
            for eln in x:
                for kk in x[eln]:
                    if not np.array_equal(x[eln][kk],y[eln][kk],equal_nan=True): problems.add(f'not repeatable {eln}.{kk}')
        for nm,(L,_,_,_) in links.items():
            if pars_snap[nm]!=dict((s,getattr(L,s)) for s in pars_snap[nm]): problems.add('params changed')
    except BaseException as e:
        problems.add('EXC '+type(e).__name__+str(e)[:80])
print(problems or 'no problems', )

import sys; sys.path.insert(0,'/tmp/scratch/repo')
import numpy as np, warnings
exec(open('/tmp/scratch/recgen.py').read().split("recs=[]; fails=0")[0].replace("seed=int(sys.argv[1]); count=int(sys.argv[2]); out=sys.argv[3]; engine_kind=sys.argv[4] if len(sys.argv)>4 else 'numpy'","seed=9"))
def z(a,p=0.35):
    a=np.array(a,float); m=rng.random(a.shape)<p; a[m]=0.0; return a
probs={}
for k in range(1500):
    n,E,orig,dest=rand_net(); net,links,origins,dests=build(n,E,orig,dest)
    if any(isinstance(L,LinkWithVsl) and p['N']==1 and not p['vsl'] for L,p,_,_ in links.values()): continue
    par=dict(T=10/3600,tau=18/3600,eta=60.,kappa=40.,delta=0.01,phi=1.0)
    ic={}
    for nm,(L,p,_,_) in links.items():
        ic[L]={'rho':z(rng.uniform(2,100,p['N'])),'v':z(rng.uniform(1,118,p['N']))}
        if rng.random()<0.1: ic[L]['rho'][0]=p['rho_max']
        if isinstance(L,LinkWithVsl): ic[L]['v_ctrl']=z(rng.uniform(20,120,len(p['vsl'])),0.2)
    for nm,(O,_,kind,C) in origins.items():
        if kind=='ideal': continue
        ic[O]={'w':z(rng.uniform(0,80,1)),'d':z(rng.uniform(100,3000,1))}
        ic[O][UNAME[kind]]=z({'v_ctrl':rng.uniform(3,130,1),'r':rng.choice([0.,1.,0.5],1),'q':rng.uniform(50,2500,1)}[UNAME[kind]],0.25)
    for nm,(D,_,kind) in dests.items():
        if kind=='congested': ic[D]={'d':z(rng.uniform(5,80,1))}
    # model's own 0/0 ?
    G=net.graph; own=False
    for nd in G.nodes:
        ins=[d['link'] for _,_,d in G.in_edges(nd,data=True)]; outs=[d['link'] for _,_,d in G.out_edges(nd,data=True)]
        if len(ins)>=2 and sum(ic[l]['rho'][-1]*ic[l]['v'][-1] for l in ins)==0: own=True
        if len(outs)>=2 and sum(ic[l]['rho'][0] for l in outs)==0: own=True
    if own: continue
    with warnings.catch_warnings():
        warnings.simplefilter('ignore')
        try:
            net.step(engine=NE(),init_conditions=ic,**par)
            yn={(el.name,kk):np.array(vv,float).flatten() for el,ns in net.next_states.items() for kk,vv in ns.items()}
        except BaseException as e: probs.setdefault('numpy EXC '+type(e).__name__+str(e)[:60],(E,orig,dest)); continue
    ce=CE('SX'); net.step(engine=ce,**par); F=ce.to_function(net,compact=0,T=par['T'])
    byname={f'{kk}_{el.name}':vv for el,e in ic.items() for kk,vv in e.items()}
    outs=F(*[byname[nm] for nm in F.name_in()])
    for nm,o in zip(F.name_out(),outs):
        kk,eln=nm[:-1].split('_',1); o=np.array(o).flatten(); a=yn[(eln,kk)]
        if not np.all(np.isfinite(o)): probs.setdefault(f'casadi nonfinite {kk}',(E,orig,dest,{e.name:v for e,v in ic.items()}))
        if not np.all(np.isfinite(a)): probs.setdefault(f'numpy nonfinite {kk}',(E,orig,dest,{e.name:v for e,v in ic.items()}))
        elif not np.allclose(a,o,rtol=1e-9,atol=1e-9,equal_nan=True): probs.setdefault(f'engines differ {kk}',(E,orig,dest,a,o))
for k,v in probs.items(): print(k,'::',str(v)[:700])
print('problems',len(probs))

import sys, json; sys.path.insert(0,'/tmp/scratch/repo')
import numpy as np, casadi as cs, itertools, warnings
from sym_metanet import *
from sym_metanet.engines.numpy import Engine as NE
from sym_metanet.engines.casadi import Engine as CE
seed=int(sys.argv[1]); count=int(sys.argv[2]); out=sys.argv[3]; engine_kind=sys.argv[4] if len(sys.argv)>4 else 'numpy'
rng=np.random.default_rng(seed)
def fr(x): n,d=float(x).as_integer_ratio(); return f"{n}/{d}"
OK=['ideal','mainstream','ramp_in','ramp_out','simp_limited','simp_unlimited']
def rand_net():
    while True:
        n=int(rng.integers(2,6)); m=int(rng.integers(1,7))
        pairs=[(u,v) for u in range(n) for v in range(n)]
        idx=rng.choice(len(pairs),size=min(m,len(pairs)),replace=False); E=[pairs[i] for i in idx]
        used=set(x for e in E for x in e)
        if used!=set(range(n)): continue
        indeg=[sum(1 for e in E if e[1]==u) for u in range(n)]; outdeg=[sum(1 for e in E if e[0]==u) for u in range(n)]
        orig={}; dest={}; ok=True
        for u in range(n):
            if outdeg[u]==0:
                if indeg[u]!=1: ok=False;break
                dest[u]=rng.choice(['free','congested'])
            if indeg[u]==0:
                if outdeg[u]!=1: ok=False;break
                orig[u]=rng.choice(OK)
            elif outdeg[u]==1 and u not in dest and rng.random()<0.4:
                orig[u]=rng.choice(OK[2:])
        if not ok: continue
        return n,E,orig,dest
def build(n,E,orig,dest):
    nodes=[Node(f'n{i}') for i in range(n)]
    links={}; net=Network()
    order=list(range(len(E))); rng.shuffle(order)
    for k in order:
        u,v=E[k]; N=int(rng.integers(1,4))
        p=dict(N=N,lam=int(rng.integers(1,5)),L=float(rng.uniform(0.5,1.5)),rho_max=float(rng.uniform(150,200)),rho_crit=float(rng.uniform(25,40)),v_free=float(rng.uniform(90,120)),a=float(rng.uniform(1.2,2.2)),beta=float(rng.uniform(0.5,3)))
        if rng.random()<0.4:
            vs=sorted(set(int(i) for i in rng.integers(0,N,size=int(rng.integers(0,N+1)))))
            alpha=float(rng.uniform(0,0.2)); L=LinkWithVsl(N,p['lam'],p['L'],p['rho_max'],p['rho_crit'],p['v_free'],p['a'],turnrate=p['beta'],name=f'L{k}',segments_with_vsl=set(vs),alpha=alpha); p.update(vsl=[i+1 for i in vs],alpha=alpha)
        else:
            L=Link(N,p['lam'],p['L'],p['rho_max'],p['rho_crit'],p['v_free'],p['a'],turnrate=p['beta'],name=f'L{k}'); p.update(vsl=[],alpha=0.0)
        net.add_link(nodes[u],L,nodes[v]); links[f'L{k}']=(L,p,f'n{u}',f'n{v}')
    origins={}; dests={}
    for u,kind in orig.items():
        C=float(rng.uniform(800,2500)); nm=f'O{u}'
        O={'ideal':lambda:Origin(name=nm),'mainstream':lambda:MainstreamOrigin(name=nm),'ramp_in':lambda:MeteredOnRamp(C,'in',name=nm),'ramp_out':lambda:MeteredOnRamp(C,'out',name=nm),
           'simp_limited':lambda:SimplifiedMeteredOnRamp(C,'limited',name=nm),'simp_unlimited':lambda:SimplifiedMeteredOnRamp(C,'unlimited',name=nm)}[kind]()
        net.add_origin(O,nodes[u]); origins[nm]=(O,f'n{u}',kind,C)
    for u,kind in dest.items():
        nm=f'D{u}'; D=Destination(name=nm) if kind=='free' else CongestedDestination(name=nm)
        net.add_destination(D,nodes[u]); dests[nm]=(D,f'n{u}',kind)
    return net,links,origins,dests
UNAME={'mainstream':'v_ctrl','ramp_in':'r','ramp_out':'r','simp_limited':'q','simp_unlimited':'q'}
recs=[]; fails=0
for k in range(count):
    n,E,orig,dest=rand_net(); net,links,origins,dests=build(n,E,orig,dest)
    v,msgs=net.is_valid()
    assert v,(E,orig,dest,msgs)
    par=dict(T=10/3600,tau=18/3600,eta=60.,kappa=40.)
    hasDelta=bool(rng.random()<0.6); hasPhi=bool(rng.random()<0.6)
    if hasDelta: par['delta']=float(rng.uniform(0.005,0.03))
    if hasPhi: par['phi']=float(rng.uniform(0.5,3))
    ic={}
    for nm,(L,p,_,_) in links.items():
        ic[L]={'rho':rng.uniform(2,100,p['N']),'v':rng.uniform(1,118,p['N'])}
        if p['vsl']: ic[L]['v_ctrl']=rng.uniform(20,120,len(p['vsl']))
        elif isinstance(L,LinkWithVsl): ic[L]['v_ctrl']=np.zeros(0)
    for nm,(O,_,kind,C) in origins.items():
        if kind=='ideal': continue
        ic[O]={'w':rng.uniform(0,80,1),'d':rng.uniform(100,3000,1)}
        ic[O][UNAME[kind]]={'v_ctrl':rng.uniform(3,130,1),'r':rng.uniform(0,1,1),'q':rng.uniform(50,2500,1)}[UNAME[kind]]
    for nm,(D,_,kind) in dests.items():
        if kind=='congested': ic[D]={'d':rng.uniform(5,80,1)}
    y={}
    try:
        if engine_kind=='numpy':
            with warnings.catch_warnings():
                warnings.simplefilter('ignore')
                net.step(engine=NE(),init_conditions={el:dict(v) for el,v in ic.items()},**par)
            for nm,(L,p,_,_) in links.items(): y[('rho',nm)]=np.array(L.next_states['rho']).flatten(); y[('v',nm)]=np.array(L.next_states['v']).flatten()
            for nm,(O,_,kind,_) in origins.items():
                if kind!='ideal': y[('w',nm)]=np.array(O.next_states['w']).flatten()
        else:
            ce=CE(engine_kind); net.step(engine=ce,**par); comp=int(rng.integers(0,3))
            F=ce.to_function(net,compact=0,more_out=True,T=par['T'])
            byname={f'{kk}_{el.name}':vv for el,e in ic.items() for kk,vv in e.items()}
            outs=F(*[byname[nm] for nm in F.name_in()])
            for nm,o in zip(F.name_out(),outs):
                if nm.endswith('+'):
                    kk,eln=nm[:-1].split('_',1); y[(kk,eln)]=np.array(o).flatten()
    except BaseException as e:
        fails+=1; print('EXC',type(e).__name__,str(e)[:120],'E=',E,'orig=',orig,'dest=',dest,'par',sorted(par)); continue
    rec=dict(id=k,shape=dict(E=E,orig={str(a):b for a,b in orig.items()},dest={str(a):b for a,b in dest.items()}),
      net=dict(links={nm:dict(up=u,down=dn,N=p['N'],lam=fr(p['lam']),L=fr(p['L']),rho_max=fr(p['rho_max']),rho_crit=fr(p['rho_crit']),v_free=fr(p['v_free']),a=fr(p['a']),beta=fr(p['beta']),vsl=p['vsl'],alpha=fr(p['alpha'])) for nm,(L,p,u,dn) in links.items()},
               origins={nm:dict(node=nd,kind=kind,C=fr(C)) for nm,(O,nd,kind,C) in origins.items()},
               dests={nm:dict(node=nd,kind=kind) for nm,(D,nd,kind) in dests.items()}),
      par=dict(T=fr(par['T']),tau=fr(par['tau']),eta=fr(par['eta']),kappa=fr(par['kappa']),delta=fr(par.get('delta',0.)),phi=fr(par.get('phi',0.)),hasDelta=hasDelta,hasPhi=hasPhi),
      x=dict(rho={nm:[fr(z) for z in ic[L]['rho']] for nm,(L,_,_,_) in links.items()},v={nm:[fr(z) for z in ic[L]['v']] for nm,(L,_,_,_) in links.items()},w={nm:fr(ic[O]['w'][0]) for nm,(O,_,kind,_) in origins.items() if kind!='ideal'}),
      u=dict(vctrl={nm:[fr(z) for z in ic[L].get('v_ctrl',[])] for nm,(L,_,_,_) in links.items()},o={nm:fr(ic[O][UNAME[kind]][0]) for nm,(O,_,kind,_) in origins.items() if kind!='ideal'}),
      d=dict(o={nm:fr(ic[O]['d'][0]) for nm,(O,_,kind,_) in origins.items() if kind!='ideal'},dest={nm:(fr(ic[D]['d'][0]) if kind=='congested' else "0/1") for nm,(D,_,kind) in dests.items()}),
      y=dict(rho={nm:[fr(z) for z in y[('rho',nm)]] for nm in links},v={nm:[fr(z) for z in y[('v',nm)]] for nm in links},w={nm:fr(y[('w',nm)][0]) for nm,(O,_,kind,_) in origins.items() if kind!='ideal'}))
    recs.append(rec)
open(out,'w').write('\n'.join(json.dumps(r) for r in recs)+'\n')
print('wrote',len(recs),'exceptions',fails)
